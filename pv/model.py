"""Reference models shared by the checks: type tables, MPI datatype language,
file/variable data model, request geometry.  Nothing here calls the library."""
import numpy as np
import itertools

# ---------------------------------------------------------------- types
NC_BYTE, NC_CHAR, NC_SHORT, NC_INT, NC_FLOAT, NC_DOUBLE, NC_UBYTE, NC_USHORT, NC_UINT, NC_INT64, NC_UINT64 = range(1, 12)
XT_NAME = {1: "byte", 2: "char", 3: "short", 4: "int", 5: "float", 6: "double", 7: "ubyte", 8: "ushort", 9: "uint", 10: "int64", 11: "uint64"}
XT_DTYPE = {1: "i1", 2: "u1", 3: "i2", 4: "i4", 5: "f4", 6: "f8", 7: "u1", 8: "u2", 9: "u4", 10: "i8", 11: "u8"}
XT_SIZE = {1: 1, 2: 1, 3: 2, 4: 4, 5: 4, 6: 8, 7: 1, 8: 2, 9: 4, 10: 8, 11: 8}
XT_CDF12 = [1, 2, 3, 4, 5, 6]
XT_ALL = list(range(1, 12))
# memory types of the typed APIs
MT_DTYPE = {"text": "u1", "schar": "i1", "uchar": "u1", "short": "i2", "ushort": "u2", "int": "i4", "uint": "u4",
            "long": "i8", "float": "f4", "double": "f8", "longlong": "i8", "ulonglong": "u8"}
MT_NUMERIC = ["schar", "uchar", "short", "ushort", "int", "uint", "long", "float", "double", "longlong", "ulonglong"]
# external type -> memory type / MPI primitive holding it natively
XT_NATIVE_MT = {1: "schar", 2: "text", 3: "short", 4: "int", 5: "float", 6: "double", 7: "uchar", 8: "ushort", 9: "uint", 10: "longlong", 11: "ulonglong"}
MT_PRIM = {"text": "char", "schar": "schar", "uchar": "uchar", "short": "short", "ushort": "ushort", "int": "int", "uint": "uint",
           "long": "long", "float": "float", "double": "double", "longlong": "longlong", "ulonglong": "ulonglong"}
PRIM_SIZE = {"byte": 1, "char": 1, "schar": 1, "uchar": 1, "short": 2, "ushort": 2, "int": 4, "uint": 4, "long": 8, "ulong": 8,
             "float": 4, "double": 8, "longlong": 8, "ulonglong": 8}
# default fill values (pnetcdf.h)
NC_FILL = {1: -127, 2: 0, 3: -32767, 4: -2147483647, 5: 9.9692099683868690e+36, 6: 9.9692099683868690e+36,
           7: 255, 8: 65535, 9: 4294967295, 10: -9223372036854775806, 11: 18446744073709551614}

# error codes (pnetcdf.h)
NC_NOERR = 0
E = dict(EBADID=-33, ENFILE=-34, EEXIST=-35, EINVAL=-36, EPERM=-37, ENOTINDEFINE=-38, EINDEFINE=-39, EINVALCOORDS=-40,
         EMAXDIMS=-41, ENAMEINUSE=-42, ENOTATT=-43, EMAXATTS=-44, EBADTYPE=-45, EBADDIM=-46, EUNLIMPOS=-47, EMAXVARS=-48,
         ENOTVAR=-49, EGLOBAL=-50, ENOTNC=-51, ESTS=-52, EMAXNAME=-53, EUNLIMIT=-54, ENORECVARS=-55, ECHAR=-56, EEDGE=-57,
         ESTRIDE=-58, EBADNAME=-59, ERANGE=-60, ENOMEM=-61, EVARSIZE=-62, EDIMSIZE=-63, ETRUNC=-64, EAXISTYPE=-65,
         ESMALL=-201, ENOTINDEP=-202, EINDEP=-203, EFILE=-204, EREAD=-205, EWRITE=-206, EOFILE=-207, EMULTITYPES=-208,
         EIOMISMATCH=-209, ENEGATIVECNT=-210, EUNSPTETYPE=-211, EINVAL_REQUEST=-212, EAGAIN=-213, ENOTSUPPORT=-214,
         ENULLBUF=-215, EPREVATTACHBUF=-216, ENULLABUF=-217, EPENDINGBPUT=-218, EINSUFFBUF=-219, ENOENT=-220,
         EINTOVERFLOW=-221, ENOTENABLED=-222, EBAD_FILE=-223, ENO_SPACE=-224, EQUOTA=-225, ENULLSTART=-226,
         ENULLCOUNT=-227, EINVAL_CMODE=-228, ETYPESIZE=-229, ETYPE_MISMATCH=-230, ETYPESIZE_MISMATCH=-231,
         ESTRICTCDF2=-232, ENOTRECVAR=-233, ENOTFILL=-234, EINVAL_OMODE=-235, EPENDING=-236, EMAX_REQ=-237,
         EBADLOG=-238, EFLUSHED=-239, EADIOS=-240, EFSTYPE=-241)


def roundup(x, a):
    return (x + a - 1) // a * a if a > 0 else x


# ---------------------------------------------------------------- datatype language
# A type is a nested tuple:
#  ('prim', name) | ('ctg', n, T) | ('vec', c, b, s, T) | ('hvec', c, b, sbytes, T) | ('idx', [(b, d)...], T)
#  | ('hidx', [(b, dbytes)...], T) | ('struct', [(b, dbytes)...], T) | ('sub', sizes, subsizes, starts, T)
#  | ('rsz', lb, extent, T) | ('dup', T)
def t_spec(T):
    k = T[0]
    if k == "prim":
        return T[1]
    if k == "ctg":
        return "ctg(%d,%s)" % (T[1], t_spec(T[2]))
    if k in ("vec", "hvec"):
        return "%s(%d,%d,%d,%s)" % (k, T[1], T[2], T[3], t_spec(T[4]))
    if k in ("idx", "hidx", "struct"):
        return "%s(%s,%s)" % (k, ";".join("%d:%d" % (b, d) for b, d in T[1]), t_spec(T[2]))
    if k == "sub":
        return "sub(%s;%s;%s,%s)" % (":".join(map(str, T[1])), ":".join(map(str, T[2])), ":".join(map(str, T[3])), t_spec(T[4]))
    if k == "rsz":
        return "rsz(%d,%d,%s)" % (T[1], T[2], t_spec(T[3]))
    if k == "dup":
        return "dup(%s)" % t_spec(T[1])
    raise ValueError(k)


def t_prim(T):
    while T[0] != "prim":
        T = T[-1]
    return T[1]


def t_map(T):
    """(offsets of primitive elements in typemap order [np.int64], lb, ub) per the MPI rules"""
    k = T[0]
    if k == "prim":
        return np.zeros(1, dtype=np.int64), 0, PRIM_SIZE[T[1]]
    if k == "dup":
        return t_map(T[1])
    if k == "rsz":
        o, lb, ub = t_map(T[3])
        return o, T[1], T[1] + T[2]
    inner = T[-1]
    o, lb, ub = t_map(inner)
    ext = ub - lb
    if k == "sub":
        sizes, subs, starts = T[1], T[2], T[3]
        idx = np.indices(subs).reshape(len(subs), -1).T + np.array(starts)
        strides = [int(np.prod(sizes[i + 1:])) for i in range(len(sizes))]
        lin = (idx * np.array(strides)).sum(axis=1)
        offs = (lin[:, None] * ext + o[None, :]).reshape(-1)
        return offs.astype(np.int64), 0, int(np.prod(sizes)) * ext
    disps = []   # byte displacement of every copy of inner, in order
    if k == "ctg":
        disps = [i * ext for i in range(T[1])]
    elif k == "vec":
        disps = [(i * T[3] + j) * ext for i in range(T[1]) for j in range(T[2])]
    elif k == "hvec":
        disps = [i * T[3] + j * ext for i in range(T[1]) for j in range(T[2])]
    elif k == "idx":
        disps = [(d + j) * ext for b, d in T[1] for j in range(b)]
    elif k in ("hidx", "struct"):
        disps = [d + j * ext for b, d in T[1] for j in range(b)]
    else:
        raise ValueError(k)
    if not disps:
        return np.zeros(0, dtype=np.int64), 0, 0
    d = np.array(disps, dtype=np.int64)
    offs = (d[:, None] + o[None, :]).reshape(-1)
    return offs, int(d.min()) + lb, int(d.max()) + ub


def t_layout(T, bufcount):
    """byte offsets of all elements of bufcount copies of T, and the buffer size in bytes needed"""
    o, lb, ub = t_map(T)
    ext = ub - lb
    esz = PRIM_SIZE[t_prim(T)]
    if bufcount == 0 or len(o) == 0:
        return np.zeros(0, dtype=np.int64), 0
    offs = (np.arange(bufcount, dtype=np.int64)[:, None] * ext + o[None, :]).reshape(-1)
    size = int(max(offs.max() + esz, (bufcount - 1) * ext + ub))
    return offs, size


# ---------------------------------------------------------------- request geometry
def box_indices(start, count, stride=None):
    """index tuples (N, nd) addressed by (start,count,stride) in C order"""
    nd = len(count)
    if nd == 0:
        return np.zeros((1, 0), dtype=np.int64)
    if any(c == 0 for c in count):
        return np.zeros((0, nd), dtype=np.int64)
    stride = stride or [1] * nd
    idx = np.indices(count).reshape(nd, -1).T.astype(np.int64)
    return idx * np.array(stride, dtype=np.int64) + np.array(start, dtype=np.int64)


def imap_positions(count, imap):
    """memory element position of each element of the count box in C order"""
    nd = len(count)
    if nd == 0:
        return np.zeros(1, dtype=np.int64)
    idx = np.indices(count).reshape(nd, -1).T.astype(np.int64)
    return (idx * np.array(imap, dtype=np.int64)).sum(axis=1)


def canonical_imap(count):
    return [int(np.prod(count[i + 1:])) for i in range(len(count))]


# ---------------------------------------------------------------- file model
class VarM:
    def __init__(self, name, xt, dimids):
        self.name = name
        self.xt = xt
        self.dimids = list(dimids)
        self.vals = None     # numpy array, external dtype (native endian)
        self.mask = None     # 0 unknown, 1 written, 2 fill
        self.atts = []
        self.fill = None     # None = follow dataset mode; else (nofill, value)


class FileM:
    """logical content of one netCDF file plus layout prediction"""

    def __init__(self, fmt=1):
        self.fmt = fmt
        self.dims = []      # (name, len) ; len 0 = unlimited
        self.vars = []
        self.gatts = []
        self.numrecs = 0

    def recdim(self):
        for i, (_, l) in enumerate(self.dims):
            if l == 0:
                return i
        return -1

    def is_rec(self, v):
        return len(v.dimids) > 0 and self.dims[v.dimids[0]][1] == 0

    def shape(self, v, numrecs=None):
        nr = self.numrecs if numrecs is None else numrecs
        return tuple(nr if self.dims[d][1] == 0 else self.dims[d][1] for d in v.dimids)

    def add_var(self, name, xt, dimids):
        v = VarM(name, xt, dimids)
        self.vars.append(v)
        shp = self.shape(v)
        v.vals = np.zeros(shp, dtype=XT_DTYPE[xt])
        v.mask = np.zeros(shp, dtype=np.uint8)
        return v

    def grow(self, numrecs):
        if numrecs <= self.numrecs:
            return
        for v in self.vars:
            if self.is_rec(v):
                add = numrecs - v.vals.shape[0]
                if add > 0:
                    pad = [(0, add)] + [(0, 0)] * (v.vals.ndim - 1)
                    v.vals = np.pad(v.vals, pad)
                    v.mask = np.pad(v.mask, pad)
        self.numrecs = numrecs

    def write(self, vi, idx, values):
        """idx: (N, nd) index tuples; values: array of N external values"""
        v = self.vars[vi]
        if len(idx) == 0:
            return
        if self.is_rec(v):
            self.grow(int(idx[:, 0].max()) + 1)
        if idx.shape[1] == 0:
            v.vals[()] = values[0]
            v.mask[()] = 1
        else:
            t = tuple(idx.T)
            v.vals[t] = values
            v.mask[t] = 1

    def read(self, vi, idx):
        v = self.vars[vi]
        if idx.shape[1] == 0:
            return np.array([v.vals[()]]), np.array([v.mask[()]])
        t = tuple(idx.T)
        return v.vals[t], v.mask[t]

    # layout prediction (format rules only)
    def var_nbytes(self, v):
        n = XT_SIZE[v.xt]
        for j, d in enumerate(v.dimids):
            if self.dims[d][1] == 0:
                continue
            n *= self.dims[d][1]
        return n

    def recsize(self):
        rv = [v for v in self.vars if self.is_rec(v)]
        if len(rv) == 1:
            return self.var_nbytes(rv[0])
        return sum(roundup(self.var_nbytes(v), 4) for v in rv)

    def rec_offset_in_record(self, vi):
        off = 0
        for j, v in enumerate(self.vars):
            if j == vi:
                return off
            if self.is_rec(v):
                off += roundup(self.var_nbytes(v), 4)
        return off

    def elem_offsets_rel(self, vi, idx):
        """byte offsets relative to the variable's begin of the elements idx (N, nd)"""
        v = self.vars[vi]
        xs = XT_SIZE[v.xt]
        shp = [self.dims[d][1] for d in v.dimids]
        nd = len(shp)
        if nd == 0:
            return np.zeros(len(idx), dtype=np.int64)
        if self.is_rec(v):
            inner = [int(np.prod(shp[i + 1:])) for i in range(1, nd)]
            off = idx[:, 0] * self.recsize()
            if nd > 1:
                off = off + (idx[:, 1:] * np.array(inner, dtype=np.int64)).sum(axis=1) * xs
            return off
        st = [int(np.prod(shp[i + 1:])) for i in range(nd)]
        return (idx * np.array(st, dtype=np.int64)).sum(axis=1) * xs


def value_pattern(seed, n, xt, mt, vclass="pos"):
    """n external values (numpy, external dtype).  A pure function of the arguments.
    vclass 'wild': arbitrary bit patterns (finite for floating types) - only used with the native memory
    type, so no conversion is involved; 'pos': integers 0..100; 'neg': integers -100..100."""
    xd = np.dtype(XT_DTYPE[xt])
    i = np.arange(n, dtype=np.uint64)
    if vclass == "wild":
        with np.errstate(over="ignore"):
            raw = ((i * np.uint64(2654435761) + np.uint64(seed * 40503 + 12345)) * np.uint64(6364136223846793005) + np.uint64(1442695040888963407))
            raw ^= raw >> np.uint64(29)
        b = raw.view(np.uint8).reshape(n, 8)[:, 8 - xd.itemsize:].copy()
        out = b.view(xd).reshape(n).copy()
        if xd.kind == "f" and n:
            out[~np.isfinite(out)] = 1.5
        return out
    if vclass == "big":
        return ((np.arange(n, dtype=np.int64) * 3 + seed) % 100 + 1000).astype(xd)
    lo, hi = (-100, 100) if vclass == "neg" else (0, 100)
    span = hi - lo + 1
    ii = np.arange(n, dtype=np.int64)
    return ((ii * 7 + seed * 13 + 3) % span + lo).astype(xd)


def mt_key(req):
    """memory type name of a request (typed API name, or derived from the flexible primitive)"""
    if req["mt"] != "flex":
        return req["mt"]
    return [k for k, p in MT_PRIM.items() if p == req["prim"]][0]
