"""limits - reference acceptance rule for ncmpi_def_dim / ncmpi_def_var / ncmpi_enddef with respect to the size limits
of the classic file formats CDF-1, CDF-2 and CDF-5 (DESIGN.md appendix C), plus the data layout an accepted definition
implies.  Pure integer arithmetic on Python ints (no overflow); nothing here calls or reads the library under test.

Sources (documentation only):

  [U]  The NetCDF Users Guide, "NetCDF Classic Format Limitations" / "64-bit Offset Format Limitations", quoted in the
       header comments of /repo/test/testcases/last_large_var.c:
         "If you don't use the unlimited dimension, only one variable can exceed 2 GiB in size, but it can be as large
          as the underlying file system permits.  It must be the last variable in the dataset, and the offset to the
          beginning of this variable must be less than about 2 GiB."
         "If you use the unlimited dimension, record variables may exceed 2 GiB in size, as long as the offset of the
          start of each record variable within a record is less than 2 GiB - 4."
       and the cases of that test: CDF-1 with four 2 GiB-4 byte fixed variables -> NC_EVARSIZE (offset of the last one
       >= 2 GiB) while the same in CDF-2 is legal; a large variable that is not the last -> NC_EVARSIZE.
  [R]  /repo/RELEASE_NOTES: "when there is no record variable, the last fixed-size variable can be larger than 2GiB in
       size if its starting file offset is less than 2GiB" (1.4.0); "Conform with CDF-2 file format specification on
       using 2^32-1 for vsize when the variable size is larger than 2^32-4 bytes" (1.8.0); "Conform with netCDF on the
       maximal dimension size for CDF-2 file format" (1.4.0); test/testcases/large_var_cdf5.c "tests whether
       NC_EVARSIZE can be correctly thrown when a variable or a variable record is larger than NC_MAX_INT64-3".
  [H]  pnetcdf.h: NC_EVARSIZE "One or more variable sizes violate format constraints", NC_EDIMSIZE "Invalid
       dimension size", NC_EUNLIMIT "NC_UNLIMITED size already in use", NC_MAX_INT, NC_MAX_INT64.
  [D]  header comment of /repo/test/testcases/tst_dimsizes.c: the format grammar gives dim_length = NON_NEG, a 32-bit
       signed integer in CDF-1/2 and a 64-bit one in CDF-5: "NC_CLASSIC Max dimension size is NC_INT_MAX,
       NC_64BIT_OFFSET ... NC_INT_MAX, NC_64BIT_DATA ... NC_INT64_MAX"; a negative size -> NC_EDIMSIZE.
  [L]  header comment of /repo/test/testcases/large_var_cdf5.c: NC_EVARSIZE "is thrown when defining large variables
       of size > NC_MAX_INT64 - 3" - in that test ncmpi_def_var itself returns the error.
  [F]  the file format grammar (begin = 32-bit OFFSET in CDF-1, 64-bit in CDF-2/5; vsize = padded size; variables
       are laid out in definition order, fixed-size variables first, then the record variables; data start on 4-byte
       boundaries after the header; with exactly one record variable records are not padded).

Rule (appendix C).  S(v) = unpadded byte size of a fixed-size variable, or of ONE record of a record variable.
  * def_dim: CDF-1/2 accept 0 <= len <= 2^31-1, CDF-5 accepts 0 <= len <= 2^63-1; len == 0 (NC_UNLIMITED) a second
    time -> NC_EUNLIMIT; otherwise NC_EDIMSIZE.
  * def_var: a variable with S > 2^63-4 may already be refused by ncmpi_def_var with NC_EVARSIZE [L]; every other
    variable must be accepted there (the format rules are checked when define mode is left).
  * enddef, CDF-5: accept iff every S <= 2^63-4.
  * enddef, CDF-1 (L = 2^31-4) and CDF-2 (L = 2^32-4): F = fixed-size variables, R = record variables, both in
    definition order.  Accept iff (a) no variable of F except possibly the last has S > L, (b) no variable of R except
    possibly the last has S > L, (c) CDF-1 only: the begin offset of every variable is <= 2^31-1.
    Rejection code NC_EVARSIZE.
  * left open (verdict OPEN, nothing asserted):
      - CDF-2 "oversized last fixed-size variable together with record variables" ([U] speaks of the last variable of
        the dataset; /repo's own test expects NC_EVARSIZE for it in CDF-1, where (c) decides anyway),
      - CDF-1 when the outcome of (c) depends on the header extent inside the alignment band [extent_lo, extent_hi]
        the caller passes (the library may round the header extent up; only ncmpi__enddef with explicit alignments
        pins it),
      - any format when the data section would end beyond 2^63-1 (offsets are not representable; the property
        speaks of sizes only),
      - a CDF-1/2 variable larger than 2^63-4 that ncmpi_def_var let through in last position.
  * on acceptance: vsize field = padded size, saturated to 2^32-1 when the padded size exceeds 2^32-4 (CDF-1/2) [R];
    begins as given by layout().
"""

NC_NOERR = 0
NC_EUNLIMIT = -54
NC_EVARSIZE = -62
NC_EDIMSIZE = -63

XSZ = {1: 1, 2: 1, 3: 2, 4: 4, 5: 4, 6: 8, 7: 1, 8: 2, 9: 4, 10: 8, 11: 8}

L1 = 2 ** 31 - 4                 # CDF-1: largest size of a variable that is not the last of its kind
L2 = 2 ** 32 - 4                 # CDF-2
L5 = 2 ** 63 - 4                 # CDF-5 (and the largest size any variable may have)
VLEN_MAX = {1: L1, 2: L2, 5: L5}
DIM_MAX = {1: 2 ** 31 - 1, 2: 2 ** 31 - 1, 5: 2 ** 63 - 1}
BEGIN_MAX_CDF1 = 2 ** 31 - 1
OFFSET_MAX = 2 ** 63 - 1
VSIZE_SATURATED = 2 ** 32 - 1

ACCEPT, REJECT, OPEN = "accept", "reject", "open"


def pad4(n):
    return -(-n // 4) * 4


# ---------------------------------------------------------------------------------------------- def_dim
def def_dim_rule(fmt, length, have_unlimited):
    """return code ncmpi_def_dim must produce for a (syntactically fine, new) dimension name"""
    if length < 0 or length > DIM_MAX[fmt]:
        return NC_EDIMSIZE
    if length == 0 and have_unlimited:
        return NC_EUNLIMIT
    return NC_NOERR


# ---------------------------------------------------------------------------------------------- def_var
def var_bytes(xt, lens):
    """S(v): element size times the product of the non-record dimension lengths (`lens` without the record dimension)"""
    n = XSZ[xt]
    for l in lens:
        n *= l
    return n


def def_var_rule(S):
    """set of return codes ncmpi_def_var may produce for a variable of S bytes (per record)"""
    if S > L5:
        return frozenset([NC_NOERR, NC_EVARSIZE])
    return frozenset([NC_NOERR])


# ---------------------------------------------------------------------------------------------- layout
def layout(vars_, extent):
    """vars_: [(is_record, S)] in definition order; extent: header extent = begin of the data section (multiple of 4).
    -> (begins [per variable], recsize, begin_rec, end) where `end` is the end of the fixed-size section plus one
    record.  Fixed-size variables in definition order, each padded to 4 bytes, then the record variables."""
    begins = [None] * len(vars_)
    cur = extent
    for i, (rec, S) in enumerate(vars_):
        if not rec:
            begins[i] = cur
            cur += pad4(S)
    begin_rec = cur
    nrec = 0
    for i, (rec, S) in enumerate(vars_):
        if rec:
            begins[i] = cur
            cur += pad4(S)
            nrec += 1
    recsize = cur - begin_rec
    if nrec == 1:                       # a single record variable: records are packed
        recsize = [S for rec, S in vars_ if rec][0]
    return begins, recsize, begin_rec, cur


def vsize_field(fmt, S):
    p = pad4(S)
    if fmt != 5 and p > 2 ** 32 - 4:
        return VSIZE_SATURATED
    return p


# ---------------------------------------------------------------------------------------------- enddef
class Verdict:
    __slots__ = ("kind", "why", "marks")

    def __init__(self, kind, why, marks=()):
        self.kind = kind            # ACCEPT | REJECT | OPEN
        self.why = why
        self.marks = tuple(marks)   # classification labels (which thresholds the definition sits on)

    def allowed(self):
        if self.kind == ACCEPT:
            return frozenset([NC_NOERR])
        if self.kind == REJECT:
            return frozenset([NC_EVARSIZE])
        return frozenset([NC_NOERR, NC_EVARSIZE])

    def __repr__(self):
        return "Verdict(%s, %s)" % (self.kind, self.why)


def _offsets_ok(vars_, extent):
    begins = layout(vars_, extent)[0]
    return all(b <= BEGIN_MAX_CDF1 for b in begins)


def enddef_rule(fmt, vars_, extent_lo, extent_hi=None):
    """fmt 1|2|5; vars_: [(is_record, S)] of the variables that exist when define mode is left, in definition order;
    [extent_lo, extent_hi]: band the header extent lies in (extent_lo = header size rounded up to 4 is the smallest
    the format permits).  -> Verdict"""
    if extent_hi is None:
        extent_hi = extent_lo
    marks = []
    if not vars_:
        return Verdict(ACCEPT, "no variables")
    L = VLEN_MAX[fmt]
    for rec, S in vars_:
        for lim, nm in ((L1, "L1"), (L2, "L2"), (L5, "L5")):
            if S == lim:
                marks.append("size_eq_" + nm)
            elif lim < S <= lim + 4:
                marks.append("size_just_above_" + nm)
            elif lim - 8 <= S < lim:
                marks.append("size_just_below_" + nm)
    fixed = [S for rec, S in vars_ if not rec]
    recs = [S for rec, S in vars_ if rec]
    end_hi = layout(vars_, extent_hi)[3]
    if fmt == 5:
        if any(S > L for _, S in vars_):
            return Verdict(REJECT, "CDF-5 variable larger than 2^63-4", marks)
        if end_hi > OFFSET_MAX:
            return Verdict(OPEN, "data section ends beyond 2^63-1", marks + ["open_offset_overflow"])
        return Verdict(ACCEPT, "every size <= 2^63-4", marks)
    if any(S > L for S in fixed[:-1]):
        return Verdict(REJECT, "a fixed-size variable other than the last one exceeds %d bytes" % L, marks + ["rej_fixed_not_last"])
    if any(S > L for S in recs[:-1]):
        return Verdict(REJECT, "a record variable other than the last one exceeds %d bytes per record" % L, marks + ["rej_record_not_last"])
    if fmt == 1:
        begins = layout(vars_, extent_lo)[0]
        for b in begins:
            if BEGIN_MAX_CDF1 - 8 <= b <= BEGIN_MAX_CDF1 + 9:
                marks.append("begin_near_2G")
        if not _offsets_ok(vars_, extent_lo):
            return Verdict(REJECT, "CDF-1: a variable would begin beyond offset 2^31-1", marks + ["rej_begin_offset"])
    big_fixed = bool(fixed) and fixed[-1] > L
    big_rec = bool(recs) and recs[-1] > L
    if big_fixed:
        marks.append("last_fixed_oversized")
    if big_rec:
        marks.append("last_record_oversized")
    if any(S > L5 for _, S in vars_):
        return Verdict(OPEN, "a last variable larger than 2^63-4 bytes", marks + ["open_beyond_63bit"])
    if big_fixed and recs:
        return Verdict(OPEN, "oversized last fixed-size variable together with record variables", marks + ["open_bigfixed_with_records"])
    if fmt == 1 and not _offsets_ok(vars_, extent_hi):
        return Verdict(OPEN, "CDF-1: begin offsets cross 2^31-1 inside the header alignment band", marks + ["open_alignment_band"])
    if end_hi > OFFSET_MAX:
        return Verdict(OPEN, "data section ends beyond 2^63-1", marks + ["open_offset_overflow"])
    return Verdict(ACCEPT, "size and offset rules hold", marks)
