#!/bin/bash
# Confirm a seeded change produced by a mutation sub-agent, then run our check against it.
#   tools/seedverify.sh <ID> [check ids ...]      (default: the check of the same id)
# 1. in the agent's built worktree /tmp/mut_<ID>: apply patch, rebuild, demo must FAIL, `make check` must pass 73/0,
#    revert, rebuild, demo must PASS
# 2. copy deliverables to /verif/seeded/<ID>/
# 3. fresh worktree of /repo's current HEAD + patch -> run ./check with VERIF_REPO pointing at it (never touches /repo itself)
ID=$1; shift; CHECKS=${@:-$ID}
W=/tmp/mut_$ID; O=/tmp/mut_${ID}_out; S=/verif/seeded/$ID
export OMPI_ALLOW_RUN_AS_ROOT=1 OMPI_ALLOW_RUN_AS_ROOT_CONFIRM=1 OMPI_MCA_io=romio321 OMPI_MCA_rmaps_base_oversubscribe=1
mkdir -p $S; LOG=$S/verify.log; : > $LOG
cp $O/patch.diff $O/meta.json $S/ 2>/dev/null; cp $O/demo.c $O/run.sh $S/ 2>/dev/null; cp $O/*.c $O/*.sh $S/ 2>/dev/null
cd $W && git checkout -- . && git apply $S/patch.diff || { echo "PATCH-DOES-NOT-APPLY" | tee -a $LOG; exit 1; }
make -j8 >/dev/null 2>&1
bash $S/run.sh $W >> $LOG 2>&1; R1=$?
make -k -j8 check > $S/check_with_change.log 2>&1; P=$(grep -c '^PASS' $S/check_with_change.log); F=$(grep -c '^FAIL\|^ERROR' $S/check_with_change.log)
git checkout -- . ; make -j8 >/dev/null 2>&1
bash $S/run.sh $W >> $LOG 2>&1; R2=$?
echo "demo_with_change_exit=$R1 demo_without_exit=$R2 suite_pass=$P suite_fail=$F" | tee -a $LOG
# detection by our checks on a fresh worktree of the current HEAD
E=/tmp/seedeval_$ID; git -C /repo worktree remove --force $E 2>/dev/null; rm -rf $E /tmp/seedeval_cache_$ID
git -C /repo worktree add --detach $E HEAD >/dev/null 2>&1
cd $E && (git apply $S/patch.diff || git apply --3way $S/patch.diff) >> $LOG 2>&1 || echo "PATCH-NEEDS-REBASE on current HEAD" | tee -a $LOG
cd /verif
for c in $CHECKS; do
  ( VERIF_REPO=$E VERIF_CACHE=/tmp/seedeval_cache_$ID VERIF_EVIDENCE_DIR=/tmp/seedeval_cache_$ID/evidence VERIF_FOUND_DIR=$S/found ./check $c --tier quick > $S/check_$c.out 2>&1; echo "check $c exit=$? $(grep -c VIOLATION $S/check_$c.out) violation lines" | tee -a $LOG; grep -m3 "problem:" $S/check_$c.out | cut -c1-300 | tee -a $LOG )
done
rm -f /verif/replays/*/found-*.json.seed 2>/dev/null
git -C /repo worktree remove --force $E; rm -rf /tmp/seedeval_cache_$ID
