#!/usr/bin/env python3
"""Add a 'verification' block (what /verif ran and saw) to every seeded/<ID>/meta.json, from verify.log."""
import json, os, re, glob
V = os.path.dirname(os.path.dirname(os.path.abspath(__file__)))
for d in sorted(glob.glob(os.path.join(V, "seeded", "C*"))):
    sid = os.path.basename(d)
    mp = os.path.join(d, "meta.json")
    try:
        meta = json.load(open(mp))
    except Exception as e:
        print(sid, "meta.json unreadable", e)
        continue
    log = open(os.path.join(d, "verify.log")).read() if os.path.exists(os.path.join(d, "verify.log")) else ""
    m = re.search(r"demo_with_change_exit=(\d+) demo_without_exit=(\d+) suite_pass=(\d+) suite_fail=(\d+)", log)
    runs = [{"check": c, "exit": int(e), "violation_lines": int(n)} for c, e, n in re.findall(r"check (C\d+) exit=(\d+) (\d+) violation", log)]
    same = [r for r in runs if r["check"] == sid[:3]]
    meta["property"] = meta.get("property", sid[:3])
    meta["verification"] = {
        "ran": ["tools/seedverify.sh %s  (apply patch.diff in the agent's scratch worktree, make, run.sh must fail; make -k -j8 check; "
                "git checkout -- ., make, run.sh must pass; then fresh worktree of /repo HEAD + patch.diff and "
                "VERIF_REPO=<worktree> ./check <id> --tier quick)" % sid] +
               (["tools/seedeval.sh %s  (re-run of the detection step after the check was strengthened)" % sid] if len(same) > 1 else []),
        "demo_exit_with_change": int(m.group(1)) if m else None, "demo_exit_without_change": int(m.group(2)) if m else None,
        "suite_pass_with_change": int(m.group(3)) if m else None, "suite_fail_with_change": int(m.group(4)) if m else None,
        "check_runs_in_order": runs,
        "detected_by_same_id_check_first_run": bool(same and same[0]["exit"] == 1),
        "detected_by_same_id_check_now": bool(same and same[-1]["exit"] == 1),
        "also_detected_by": sorted(set(r["check"] for r in runs if r["check"] != sid[:3] and r["exit"] == 1)),
    }
    json.dump(meta, open(mp, "w"), indent=1)
    v = meta["verification"]
    print(sid, "demo %s/%s suite %s/%s first=%s now=%s also=%s" % (v["demo_exit_with_change"], v["demo_exit_without_change"], v["suite_pass_with_change"],
          v["suite_fail_with_change"], v["detected_by_same_id_check_first_run"], v["detected_by_same_id_check_now"], v["also_detected_by"]))
