#!/usr/bin/env python3
"""Build the PnetCDF library (and the harness executables) from /repo's
*current working tree* into a content-addressed cache.

usage: build.py <variant> [--print-dir]
variants:
  asan  : clang -O1 -g -fsanitize=address,undefined (recover UB), BB + malloc trace
  plain : gcc -O1 -g, BB + malloc trace
  fuzz  : clang -O1 -g -fsanitize=fuzzer-no-link,address,undefined

Nothing is written into /repo.  The cache key is a hash over every source
file that can influence the objects (src/**.{c,h,m4}, m4/*.m4, harness
sources), so an edited tree always gets a fresh build.
Exit code 2 = the tree does not build.
"""
import hashlib, os, re, subprocess, sys, shutil, fcntl, time, glob
from concurrent.futures import ThreadPoolExecutor

REPO = os.environ.get("VERIF_REPO", "/repo")
VERIF = os.path.dirname(os.path.dirname(os.path.abspath(__file__)))
CACHE = os.environ.get("VERIF_CACHE", os.path.join(VERIF, ".cache", "build"))
LIBDIRS = ["src/dispatchers", "src/drivers/common", "src/drivers/ncmpio", "src/drivers/ncbbio"]
MPI_INC = ["-I/usr/lib/x86_64-linux-gnu/openmpi/include",
           "-I/usr/lib/x86_64-linux-gnu/openmpi/include/openmpi"]
MPI_LIB = ["-L/usr/lib/x86_64-linux-gnu/openmpi/lib", "-lmpi"]

VARIANTS = {
    "asan": dict(cc="clang", cxx="clang++",
                 cflags=["-O1", "-g", "-fno-omit-frame-pointer", "-fsanitize=address,undefined",
                         "-fsanitize-recover=undefined", "-fno-sanitize=function"],
                 ldflags=["-fsanitize=address,undefined", "-no-pie"]),
    "plain": dict(cc="gcc", cxx="g++", cflags=["-O1", "-g"], ldflags=["-no-pie"]),
    "fuzz": dict(cc="clang", cxx="clang++",
                 cflags=["-O1", "-g", "-fno-omit-frame-pointer",
                         "-fsanitize=fuzzer-no-link,address,undefined",
                         "-fsanitize-recover=undefined"],
                 ldflags=["-fsanitize=fuzzer,address,undefined"]),
}
ENABLED_CONDS = {"ENABLE_ERANGE_FILL", "ENABLE_BURST_BUFFER"}
LIBDEFS = ["-DHAVE_CONFIG_H", "-DENABLE_BURST_BUFFER=1", "-DPNC_MALLOC_TRACE=1", "-w"]


def makefile_am_sources(d):
    """C_SRCS and M4_SRCS named in Makefile.am (comments stripped)."""
    txt = open(os.path.join(REPO, d, "Makefile.am")).read()
    txt = re.sub(r"\\\n", " ", txt)
    c, m4 = [], []
    stack = []          # automake conditionals
    for line in txt.splitlines():
        line = line.split("#", 1)[0]
        mc = re.match(r"\s*if\s+(!?)(\w+)", line)
        if mc:
            on = mc.group(2) in ENABLED_CONDS
            stack.append(on != (mc.group(1) == "!"))
            continue
        if re.match(r"\s*else\b", line) and stack:
            stack[-1] = not stack[-1]
            continue
        if re.match(r"\s*endif\b", line) and stack:
            stack.pop()
            continue
        if not all(stack):
            continue
        m = re.match(r"\s*(C_SRCS|M4_SRCS)\s*\+?=\s*(.*)", line)
        if not m:
            continue
        toks = m.group(2).split()
        if m.group(1) == "C_SRCS":
            c += [t for t in toks if t.endswith(".c")]
        else:
            m4 += [t for t in toks if t.endswith(".m4")]
    return c, m4


def m4flags(d):
    fl = ["-DPNETCDF", "-I" + os.path.join(REPO, "m4")]
    # ENABLE_ERANGE_FILL is the configured default of this build (Makefile: ENABLE_ERANGE_FILL = 1)
    am = open(os.path.join(REPO, d, "Makefile.am")).read()
    if "-DERANGE_FILL" in am:
        mk = os.path.join(REPO, d, "Makefile")
        on = True
        if os.path.exists(mk):
            on = re.search(r"^ENABLE_ERANGE_FILL\s*=\s*1", open(mk).read(), re.M) is not None
        if on:
            fl.append("-DERANGE_FILL")
    return fl


def tree_files():
    out = []
    for d in LIBDIRS + ["src/drivers/include", "src/include"]:
        for fn in sorted(os.listdir(os.path.join(REPO, d))):
            p = os.path.join(REPO, d, fn)
            if not os.path.isfile(p):
                continue
            if fn.endswith((".m4", ".h", ".am", ".in")):
                out.append(p)
            elif fn.endswith(".c"):
                if os.path.exists(p[:-2] + ".m4"):
                    continue  # build product
                out.append(p)
    for p in sorted(glob.glob(os.path.join(REPO, "m4", "*.m4"))):
        out.append(p)
    for root, _, fns in os.walk(os.path.join(REPO, "src/utils")):
        for fn in sorted(fns):
            if fn.endswith((".c", ".h", ".m4", ".y", ".l")):
                out.append(os.path.join(root, fn))
    for p in sorted(glob.glob(os.path.join(VERIF, "harness", "*"))):
        if os.path.isfile(p):
            out.append(p)
    out.append(os.path.abspath(__file__))
    return out


def tree_hash(variant):
    h = hashlib.sha256()
    h.update(variant.encode())
    for p in tree_files():
        h.update(p.encode() + b"\0")
        with open(p, "rb") as f:
            h.update(f.read())
        h.update(b"\0")
    return h.hexdigest()[:16]


def run(cmd, log):
    r = subprocess.run(cmd, stdout=subprocess.PIPE, stderr=subprocess.STDOUT)
    if r.returncode != 0:
        log.append("FAILED: " + " ".join(cmd) + "\n" + r.stdout.decode(errors="replace"))
    return r.returncode == 0


def build(variant, out):
    V = VARIANTS[variant]
    gen = os.path.join(out, "gen")
    obj = os.path.join(out, "obj")
    os.makedirs(gen + "/include", exist_ok=True)
    os.makedirs(obj, exist_ok=True)
    log = []
    # config.h / pnetcdf.h : products of configure; fall back to the copies kept in /verif/support
    for h in ("config.h", "pnetcdf.h"):
        src = os.path.join(REPO, "src/include", h)
        if not os.path.exists(src):
            src = os.path.join(VERIF, "support", h)
        shutil.copy(src, os.path.join(gen, "include", h))
    # ncx.h
    with open(os.path.join(gen, "include", "ncx.h"), "wb") as f:
        r = subprocess.run(["m4"] + m4flags("src/drivers/common") +
                           [os.path.join(REPO, "src/drivers/include/ncx_h.m4")], stdout=f, stderr=subprocess.PIPE)
        if r.returncode:
            log.append("m4 ncx_h failed: " + r.stderr.decode())
    jobs = []
    for d in LIBDIRS:
        c, m4s = makefile_am_sources(d)
        for m in m4s:
            src = os.path.join(REPO, d, m)
            dst = os.path.join(gen, m[:-3] + ".c")
            with open(dst, "wb") as f:
                r = subprocess.run(["m4"] + m4flags(d) + [src], stdout=f, stderr=subprocess.PIPE)
                if r.returncode:
                    log.append("m4 failed for %s: %s" % (m, r.stderr.decode()))
            jobs.append((dst, d))
        for s in c:
            jobs.append((os.path.join(REPO, d, s), d))
    inc = ["-I" + os.path.join(gen, "include"), "-I" + os.path.join(REPO, "src/include"),
           "-I" + os.path.join(REPO, "src/drivers/include")] + MPI_INC

    def cc(job):
        src, d = job
        o = os.path.join(obj, os.path.basename(src)[:-2] + ".o")
        fl = list(V["cflags"])
        if os.path.getsize(src) > 1000000 and V["cc"] == "clang":
            fl = ["-O0" if x == "-O1" else x for x in fl]   # var_getput.c: 55k lines, 39 s at -O1, 6 s at -O0
        cmd = [V["cc"]] + fl + LIBDEFS + inc + ["-I" + os.path.join(REPO, d), "-c", src, "-o", o]
        return run(cmd, log), o
    # biggest TUs first
    jobs.sort(key=lambda j: -os.path.getsize(j[0]))
    with ThreadPoolExecutor(max_workers=int(os.environ.get("VERIF_JOBS", "16"))) as ex:
        res = list(ex.map(cc, jobs))
    if log or not all(ok for ok, _ in res):
        sys.stderr.write("\n".join(log)[-8000:] + "\n")
        return False
    lib = os.path.join(out, "libpnetcdf.a")
    if not run(["ar", "rcs", lib] + [o for _, o in res], log):
        sys.stderr.write("\n".join(log) + "\n")
        return False
    # harness executables
    hs = os.path.join(VERIF, "harness")
    hinc = ["-I" + os.path.join(gen, "include")] + MPI_INC + ["-I" + hs, "-I" + os.path.join(REPO, "src/include"),
            "-I" + os.path.join(REPO, "src/drivers/include")]
    ok = True
    if variant in ("asan", "plain") and os.path.exists(os.path.join(hs, "pncx.c")):
        # generated dispatch tables
        if os.path.exists(os.path.join(hs, "gen_calls.py")):
            with open(os.path.join(gen, "calls.inc"), "w") as f:
                r = subprocess.run([sys.executable, os.path.join(hs, "gen_calls.py")], stdout=f, stderr=subprocess.PIPE)
                if r.returncode:
                    log.append("gen_calls failed: " + r.stderr.decode())
                    ok = False
        srcs = [os.path.join(hs, "pncx.c")]
        if os.path.exists(os.path.join(hs, "shim.c")):
            srcs.append(os.path.join(hs, "shim.c"))
        cmd = [V["cc"]] + V["cflags"] + ["-Wall", "-Wno-unused-function", "-Wno-unused-variable", "-Wno-incompatible-pointer-types-discards-qualifiers"] + hinc + ["-I" + gen] + srcs + \
              [lib] + V["ldflags"] + MPI_LIB + ["-lm", "-o", os.path.join(out, "pncx")]
        ok = run(cmd, log) and ok
    if variant == "fuzz":
        for t in ("fuzz_open",):
            s = os.path.join(hs, t + ".c")
            if os.path.exists(s):
                cmd = [V["cc"]] + V["cflags"] + hinc + [s, lib] + V["ldflags"] + MPI_LIB + ["-lm", "-o", os.path.join(out, t)]
                ok = run(cmd, log) and ok
    if variant in ("asan", "plain"):
        for t in ("enum_open",):
            s = os.path.join(hs, t + ".c")
            if os.path.exists(s):
                cmd = [V["cc"]] + V["cflags"] + hinc + [s, lib] + V["ldflags"] + MPI_LIB + ["-lm", "-o", os.path.join(out, t)]
                ok = run(cmd, log) and ok
        if variant == "plain":
            ok = build_utils(V, out, inc, lib, log) and ok
    if not ok:
        sys.stderr.write("\n".join(log)[-8000:] + "\n")
    return ok


def build_utils(V, out, inc, lib, log):
    """offline utilities (C20), rebuilt from the same tree"""
    u = os.path.join(REPO, "src/utils")
    bind = os.path.join(out, "bin")
    os.makedirs(bind, exist_ok=True)
    ok = True
    cf = V["cflags"] + ["-DHAVE_CONFIG_H", "-w"] + inc
    ld = V["ldflags"] + MPI_LIB + ["-lm"]
    # serial tools (no MPI needed, but config.h is)
    ok &= run([V["cc"]] + cf + [u + "/ncvalidator/ncvalidator.c"] + ld + ["-o", bind + "/ncvalidator"], log)
    ok &= run([V["cc"]] + cf + ["-I" + u + "/ncvalidator", u + "/ncmpidiff/cdfdiff.c"] + ld + ["-o", bind + "/cdfdiff"], log)
    ok &= run([V["cc"]] + cf + [u + "/ncoffsets/ncoffsets.c"] + ld + ["-o", bind + "/ncoffsets"], log)
    ok &= run([V["cc"]] + cf + [u + "/ncmpidiff/ncmpidiff.c", lib] + ld + ["-o", bind + "/ncmpidiff"], log)
    d = u + "/ncmpidump/"
    ok &= run([V["cc"]] + cf + ["-I" + d, d + "ncmpidump.c", d + "vardata.c", d + "dumplib.c", lib] + ld +
              ["-o", bind + "/ncmpidump"], log)
    d = u + "/ncmpigen/"
    gs = [d + x for x in ("main.c", "load.c", "escapes.c", "getfill.c", "init.c", "genlib.c", "ncmpigentab.c")]
    if all(os.path.exists(x) for x in gs):
        ok &= run([V["cc"]] + cf + ["-I" + d, "-I" + os.path.join(REPO, "src/drivers/ncmpio")] + gs + [lib] + ld + ["-o", bind + "/ncmpigen"], log)
    return ok


def ensure(variant):
    os.makedirs(CACHE, exist_ok=True)
    h = tree_hash(variant)
    out = os.path.join(CACHE, "%s-%s" % (variant, h))
    lockf = open(os.path.join(CACHE, ".lock-" + variant), "w")
    fcntl.flock(lockf, fcntl.LOCK_EX)
    try:
        if os.path.exists(os.path.join(out, "OK")):
            os.utime(os.path.join(out, "OK"))
            return out
        if os.path.exists(out):
            shutil.rmtree(out)
        os.makedirs(out)
        t0 = time.time()
        if not build(variant, out):
            shutil.rmtree(out, ignore_errors=True)
            return None
        open(os.path.join(out, "OK"), "w").write("%.1f\n" % (time.time() - t0))
        # prune old builds of this variant: keep the 6 most recent, and never remove one used in the last 3 hours
        # (a concurrent long run may still be executing binaries from it)
        def stamp(p):
            try:
                return os.path.getmtime(os.path.join(p, "OK"))
            except OSError:
                return 0
        olds = sorted(glob.glob(os.path.join(CACHE, variant + "-*")), key=stamp)
        for p in olds[:-6]:
            if time.time() - stamp(p) > 3 * 3600:
                shutil.rmtree(p, ignore_errors=True)
        return out
    finally:
        fcntl.flock(lockf, fcntl.LOCK_UN)


if __name__ == "__main__":
    v = sys.argv[1] if len(sys.argv) > 1 else "asan"
    d = ensure(v)
    if d is None:
        sys.stderr.write("BUILD FAILED for variant %s\n" % v)
        sys.exit(2)
    print(d)
