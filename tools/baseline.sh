#!/bin/bash
# run the repository's pinned test-suite (guard off; there are no hooks) and summarise
cd /repo && make -k -j8 check > /tmp/pnc_baseline.log 2>&1
p=$(grep -c "^PASS" /tmp/pnc_baseline.log); f=$(grep -c "^FAIL\|^ERROR" /tmp/pnc_baseline.log)
echo "baseline: PASS=$p FAIL/ERROR=$f"
[ "$f" = "0" ] && [ "$p" -ge 73 ]
