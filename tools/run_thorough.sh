#!/bin/bash
cd /verif
mkdir -p evidence/thorough
for c in "$@"; do
  s=$(date +%s); VERIF_EVIDENCE_DIR=/verif/evidence/thorough ./check $c --tier thorough > /tmp/thor_$c.out 2>&1; e=$?; echo "$c exit=$e $(( $(date +%s) - s ))s $(grep -c VIOLATION /tmp/thor_$c.out) viol" >> /tmp/thor.log
done
echo FINISHED >> /tmp/thor.log
