#!/usr/bin/env python3
"""Regenerate MANIFEST.json from the table below (keeps it valid at all times)."""
import json, os
V = os.path.dirname(os.path.dirname(os.path.abspath(__file__)))
props = [json.loads(l) for l in open(os.path.join(V, "properties.jsonl"))]
TRUST = ("reference models and the cdfspec codec in /verif/pv (independent of the library, cross-checked against each other and "
         "scipy); OpenMPI 4.1.4 with ROMIO as MPI-IO layer on one node with a local POSIX file system; clang 14 ASan/UBSan")
CHECKS = {
 "C01": dict(level="exploration", section="4/C01", technique="property-based testing (Hypothesis) of generated multi-rank put/get programs against a numpy reference model and an independent CDF decoder",
             text="Generated-program search (Hypothesis, shrinking, 3x replay): every blocking put/get form x memory type x derived buffer datatype x decomposition over 1-4 (8 thorough) ranks is compared element-by-element with a reference model after each read, after close/reopen, and through an independent format decoder. Finds wrong-element/wrong-offset/conversion defects on the sampled programs; does not prove absence."),
 "C02": dict(level="exploration", section="4/C02", technique="property-based testing (Hypothesis) of generated nonblocking request multisets and wait plans against a blocking-semantics reference model",
             text="Generated-program search: per-rank multisets of iput/iget/bput requests and arbitrary wait/wait_all/cancel partitions and id orders over 1-4 (8 thorough) ranks; after every call the model (each completed request applied as its blocking counterpart) is compared with inq_nreqs, statuses/id arrays, iget buffers and the whole file (and the closed file through an independent decoder). Sampling, not proof."),
 "C08": dict(level="exploration", section="4/C08", technique="property-based testing over per-rank argument-class assignments with a PMPI shadow-collective matcher as oracle",
             text="For every collective API family and k=2..4 ranks each rank gets a class (valid, zero-length, one kind of invalid argument); a PMPI shim performs a shadow Allgather before every collective the library issues and after every API step, so differing collective sequences are detected deterministically (no timing), plus return-code and stored-data oracles. Quick samples the product; thorough enumerates family x class^2 for k=2. Two known findings (record-variable put and fill_var_rec with an error on a subset of ranks) are excluded by construction and probed by replay."),
 "C05": dict(level="exploration", section="4/C05", technique="property-based testing (Hypothesis) of multi-rank record-write histories against a per-rank record-count model, with the on-disk header field read back",
             text="Generated histories of collective, independent and nonblocking writes to 1-3 record variables by 2-4 (8 thorough) ranks, fills, partial waits, mode switches, syncs, redefinitions and reopen; after every call every rank's inq_dimlen and (at the documented points) the numrecs field in the file are compared with a model that tracks a per-rank view; final read-back proves the highest record is readable. Decides the property through timing-independent observables; MPI progress non-determinism is not explored."),
 "C11": dict(level="fault_enumeration", section="4/C11", technique="fault enumeration: every MPI-IO data-transfer call of generated programs x rank x MPI error class, injected through a PMPI shim, with 'the error must surface' as oracle",
             text="For Hypothesis-drawn small programs a fault-free run records every MPI_File_{read,write}[_at][_all] call per rank with its call site; then one run per (rank, call, error class) overrides that call's return value. The enclosing API call (or the completing wait) must report an error on that rank, every rank must return from it (collective matcher), nothing may crash. Quick: all calls x {IO, NO_SPACE, one rotating class}; thorough: all 7 classes for 40 programs per worker. One fault per run; open/set_view/sync/close faults are out of scope."),
 "C07": dict(level="exploration", section="4/C07", technique="property-based testing (Hypothesis op lists simulated against a sequential schema model), decoded header as second oracle",
             text="Generated histories of def/put/overwrite/rename/copy/delete on dims, vars and attributes with names engineered to collide (hash buckets for every table size, NFC-equal spellings, 1/256-byte names, rejected names), interleaved with enddef/redef/close/reopen; after every step the full inquiry dump, name->id lookups and (for data-mode updates) the bytes on disk decoded by an independent decoder are compared with a sequential reference model. Sampling, not proof."),
 "C09": dict(level="exploration", section="4/C09 + appendix D", technique="exhaustive enumeration of the 8/16-bit value domains plus boundary/random value vectors for every type pair, against an exact arithmetic conversion model",
             text="All external x memory type pairs, put and get, variables and attributes, CDF-1/2/5: every value of the 8- and 16-bit source types (exhaustive sub-domain) and boundary/NaN/Inf/denormal/random vectors for wider types, judged on the stored bytes (native read-back and independent decoder) resp. the returned buffer by a vectorised model cross-checked against an exact Fraction model. The ambiguity band stated in DESIGN appendix D is not judged."),
 "C15": dict(level="exploration", section="4/C15 + appendix B", technique="exhaustive enumeration of (start,count,stride) tuples on small shapes plus Hypothesis for larger shapes, reference predicate for the error code and byte-level before/after diff of the file",
             text="Every (start,count,stride) tuple within and beyond 1-2 dimensional shapes of length 1..3 (3-D sampled/thorough), all API forms incl. varn and nonblocking, strict and relaxed coordinate bounds, three formats: return code must be in the set the documented precedence allows; rejected/zero-length/read requests must leave the file byte-identical; accepted writes may change only bytes of the addressed elements (offsets from an independent decoder) and the numrecs field. exhaustive:true only for the enumerated small-shape domain."),
 "C13": dict(level="exploration", section="4/C13", technique="property-based testing (Hypothesis) of post/wait/cancel/attach/detach/close histories with guarded buffers and an accounting model",
             text="Generated single-process histories of blocking and nonblocking puts/gets/bputs with request sizes on both sides of the in-place-swap threshold, all swap hint settings, derived buffer datatypes, attach/detach at legal and illegal moments and every exit (return, wait, wait_all, cancel, close with pending requests): the executor compares every write buffer with its pre-call image and every read buffer's guard zones/gaps, and inq_buffer_size/usage and bput refusals are compared with an accounting model. One known finding (tail-only reclamation of the attached buffer) is matched by signature."),
 "C17": dict(level="exploration", section="4/C17", technique="property-based testing (Hypothesis state machine over several open files) with id model, traced-heap and PMPI object-ledger oracles",
             text="Generated interleavings of create/open/close/abort over up to 6 files with successful and failing calls of every API family, calls on ids that are not open (stale, unused, negative, huge), close with pending requests, and one deterministic NC_MAX_NFILES+1 case; ids must follow the model, NC_EBADID must be returned without crashing, other open files must be unaffected, and whenever no file is open ncmpi_inq_malloc_size (PNC_MALLOC_TRACE) must be back to its value at script start and the ledger of MPI datatypes/communicators/infos/file handles created by library code must be balanced."),
 "C19": dict(level="exploration", section="4/C19", technique="exhaustive enumeration of truncations and single-word substitutions of seed files plus coverage-guided fuzzing (libFuzzer, ASan+UBSan) of ncmpi_open with a self-consistency and resource-bound oracle; sanitizer scan of the other properties' scripts",
             text="Part A: for seed files of all three formats every truncation point and every 4/8-byte header word x dictionary of extreme values is opened in-process (exhaustive), then libFuzzer mutates multi-field corruptions; the oracle inside the target demands a clean error or self-consistent metadata, readable first/last elements, no id/heap leak, no sanitizer report and a deterministic bound on header reads and peak heap relative to the file size. Part B: scripts from the other properties' generators are replayed on the sanitizer build and any UBSan/ASan report located in /repo/src is a violation. One known finding (signed overflow in size/offset arithmetic on absurd headers) is matched by statement class."),
 "C14": dict(level="exploration", section="4/C14", technique="exhaustive enumeration of mode-changing call sequences to bounded depth x probe table of every API family, against a reference automaton; Hypothesis for longer histories",
             text="All sequences of {enddef, redef, begin_indep, end_indep, close+reopen rw/ro, abort+create} up to depth 3 (quick) / 5 (thorough) from created / opened-rw / opened-ro files, each followed by ~145 probe calls from every API family with valid arguments and single argument errors; every return code must be in the documented set, permitted calls must succeed, a rejected call must leave dump, pending requests, buffer, put_size, file bytes and both mode witnesses unchanged; extra parts: isolation, k=2, safe mode, random longer histories. exhaustive:true for the enumerated depth."),
 "C06": dict(level="exploration", section="4/C06", technique="property-based testing (Hypothesis) of layouts x redefinition deltas against a reference data model, byte identity for abort, independent decoder",
             text="Generated layouts (1-4 fixed and 0-3 record variables, sizes 1 B - 70 KB not divisible by k, numrecs 0-6, alignments) fully written with known values, then 1-4 redefinitions (header growth small/>64 KiB, new dims, fixed and record variables incl. the 1->2 record-variable transition, new alignment/minfree, fill modes) finished by enddef/_enddef/close/abort on k=1..4 ranks; after every commit and after reopen every previously written element must read back unchanged (dumpall on all ranks + independent decoder), abort must leave the file byte-identical, abort of a create must remove the file; a separate campaign moves a k*64 MiB variable through several mover rounds."),
}
NA_REASON = "check under construction in this session; not yet claimed"
checks = []
for p in props:
    c = CHECKS.get(p["id"])
    if not c:
        continue
    checks.append({
        "property_id": p["id"],
        "quick_cmd": "./check %s --tier quick" % p["id"],
        "thorough_cmd": "./check %s --tier thorough" % p["id"],
        "evidence_file": "/verif/evidence/%s.json" % p["id"],
        "replay_cmd_template": "./check %s --replay {path}" % p["id"],
        "engine": "pncx+hypothesis",
        "level_claimed": {"category": c["level"], "text": c["text"], "design_ref": "DESIGN.md section " + c["section"]},
        "level_note": c.get("note", TRUST),
        "technique": c["technique"],
    })
m = {
 "version": 1,
 "setup_cmd": "python3 tools/build.py asan && python3 tools/build.py plain",
 "hooks": {"guard": "PNETCDF_VERIF", "enable": "no source hooks are used: all observation points are provided by a PMPI shim linked into the test executor, by -DPNC_MALLOC_TRACE / -DENABLE_BURST_BUFFER compile flags of the harness build and by environment variables",
           "baseline_off_cmd": "cd /repo && make -k -j8 check", "source_commits": [], "add_only": True},
 "engines": [
  {"name": "pncx", "path": "harness/pncx.c", "serves_properties": [c["property_id"] for c in checks], "kind_free_text": "script executor linked with the library rebuilt from /repo's working tree (clang ASan+UBSan), persistent mpiexec pool, PMPI shim (collective matcher, fault injector, MPI object ledger, I/O log)"},
  {"name": "hypothesis-campaigns", "path": "pv/runner.py", "serves_properties": [c["property_id"] for c in checks], "kind_free_text": "Hypothesis strategies + reference models + oracles, multi-process campaign driver, 3x replay triage, evidence writer"},
  {"name": "cdfspec", "path": "pv/cdfspec.py", "serves_properties": [c["property_id"] for c in checks], "kind_free_text": "independent CDF-1/2/5 decoder/encoder written from the format grammar"},
 ],
 "checks": checks,
 "not_applicable": [{"property_id": p["id"], "reason": NA_REASON} for p in props if p["id"] not in CHECKS],
 "notes": "Every check rebuilds the library from /repo's current working tree (content-hashed cache under /verif/.cache). Exit codes: 0 held, 1 VIOLATION, 2 tree does not build, 3 harness/generator-health problem (never accompanied by a VIOLATION line).",
}
json.dump(m, open(os.path.join(V, "MANIFEST.json"), "w"), indent=1)
print("checks:", [c["property_id"] for c in checks])
