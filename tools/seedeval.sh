#!/bin/bash
# run checks against a seeded change on a fresh worktree of /repo's current HEAD (never touches /repo itself)
#   tools/seedeval.sh <seed ID> [check ids...]
ID=$1; shift; CHECKS=${@:-$ID}; S=/verif/seeded/$ID
E=/tmp/seedeval_$ID; git -C /repo worktree remove --force $E 2>/dev/null; rm -rf $E /tmp/seedeval_cache_$ID
git -C /repo worktree add --detach $E HEAD >/dev/null 2>&1
cd $E && (git apply $S/patch.diff 2>/dev/null || git apply --3way $S/patch.diff) || { echo "seed $ID: PATCH-NEEDS-REBASE on current HEAD"; }
cd /verif
for c in $CHECKS; do
  VERIF_REPO=$E VERIF_CACHE=/tmp/seedeval_cache_$ID VERIF_EVIDENCE_DIR=/tmp/seedeval_cache_$ID/evidence VERIF_FOUND_DIR=$S/found ./check $c --tier quick > $S/check_$c.out 2>&1
  echo "seed $ID: check $c exit=$? $(grep -c VIOLATION $S/check_$c.out) violation lines; $(grep -m1 'problem:' $S/check_$c.out | cut -c1-260)" | tee -a $S/verify.log
done
git -C /repo worktree remove --force $E; rm -rf /tmp/seedeval_cache_$ID
