#!/bin/bash
cd /verif
for sd in "$@"; do
for c in C01 C02 C03 C04 C05 C06 C07 C08 C09 C10 C11 C12 C13 C14 C15 C16 C17 C18 C19 C20; do
  s=$(date +%s); VERIF_EVIDENCE_DIR=/tmp/sweep_ev VERIF_FOUND_DIR=/tmp/sweep_found/$c ./check $c --tier quick --seed $sd > /tmp/sweep_${c}_$sd.out 2>&1; e=$?; echo "seed=$sd $c exit=$e $(( $(date +%s) - s ))s $(grep -c VIOLATION /tmp/sweep_${c}_$sd.out) viol" >> /tmp/sweep.log
done
done
echo FINISHED >> /tmp/sweep.log
