#!/bin/bash
cd /verif
for c in C01 C02 C03 C04 C05 C06 C07 C08 C09 C10 C11 C12 C13 C14 C15 C16 C17 C18 C19 C20; do
  s=$(date +%s); ./check $c --tier quick > /tmp/runall_$c.out 2>&1; e=$?; echo "$c exit=$e $(( $(date +%s) - s ))s $(grep -c VIOLATION /tmp/runall_$c.out) viol" >> /tmp/runall.log
done
echo FINISHED >> /tmp/runall.log
