#!/usr/bin/env python3-vt
"""developer loop: run N Hypothesis cases of one check in-process and print the shrunk failure"""
import sys, json, time, importlib
sys.path.insert(0, '/verif')
from pv import runner
from hypothesis import given, settings, seed, HealthCheck, Phase
modname, sd, n = sys.argv[1], int(sys.argv[2]), int(sys.argv[3])
tier = sys.argv[4] if len(sys.argv) > 4 else "quick"
mod = importlib.import_module("checks." + modname)
ctx = runner.Ctx(mod.PROP, tier, sd)
for v in getattr(mod, "VARIANTS", ("asan",)):
    ctx.build[v] = runner.ensure_build(v)
cnt = [0]; last = [None]
@seed(sd)
@settings(max_examples=n, database=None, deadline=None, suppress_health_check=list(HealthCheck), phases=[Phase.generate, Phase.shrink])
@given(mod.case_strategy(tier))
def t(case):
    cnt[0] += 1
    probs = runner.guarded(mod.run_case)(ctx, case)
    probs = [p for p in probs if not ctx.known.match(p)]
    if probs:
        last[0] = (case, probs)
        raise AssertionError('x')
t0 = time.time()
try:
    t()
except BaseException as _e:
    print("EXC", type(_e).__name__)
    if last[0] is None: raise
    case, probs = last[0]
    json.dump({'property': mod.PROP, 'case': case}, open('/verif/work/last_%s.json' % modname, 'w'))
    print(json.dumps(case)[:4000])
    for p in probs[:6]:
        print('PROBLEM:', p['msg']); print(p.get('stderr', '')[-3000:])
    if hasattr(mod, 'case_script'):
        print(mod.case_script(case))
finally:
    print(cnt[0], 'cases', round(time.time() - t0, 1), 's'); print(dict(ctx.stats)); print('nontrivial', len(ctx.nt), 'known hits', dict(ctx.known.hits)); ctx.close()
