#!/usr/bin/env python3
"""Regenerate the generated tables of DESIGN.md section 9 (between the GENERATED markers) from
known_findings.json and seeded/*/meta.json + verify.log."""
import json, os, re, glob
V = os.path.dirname(os.path.dirname(os.path.abspath(__file__)))


def findings_tables():
    k = json.load(open(os.path.join(V, "known_findings.json")))
    fixed = [f for f in k["findings"] if f["status"] == "fixed"]
    known = [f for f in k["findings"] if f["status"] == "known"]
    out = ["**Repaired defects** (%d `fix:` commits in /repo; each has a regression replay under `replays/`):" % len(fixed), "",
           "| id | found by | commit | what failed |", "|---|---|---|---|"]
    for f in fixed:
        line = f.get("line", f["description"])
        line = re.sub(r"^fixed: property=\S+ \S+ ", "", line)
        out.append("| %s | %s | %s | %s |" % (f["id"].split("-")[0], "/".join(f["properties"]), f.get("commit", ""), line.replace("|", "/")))
    out += ["", "**Known findings** (genuine, not repaired; announced as `KNOWN-FINDING` and suppressed only by signature):", "",
            "| id | property | what fails | why not repaired |", "|---|---|---|---|"]
    for f in known:
        out.append("| %s | %s | %s | %s |" % (f["id"].split("-")[0], "/".join(f["properties"]), f["description"].replace("|", "/")[:700], f.get("why_not_fixed", "").replace("|", "/")[:500]))
    return "\n".join(out)


def seeded_table():
    out = ["| seeded change | site | needs, in order to manifest | first run of the same-id check | after strengthening |", "|---|---|---|---|---|"]
    for d in sorted(glob.glob(os.path.join(V, "seeded", "C*"))):
        sid = os.path.basename(d)
        try:
            meta = json.load(open(os.path.join(d, "meta.json")))
        except Exception:
            continue
        log = open(os.path.join(d, "verify.log")).read() if os.path.exists(os.path.join(d, "verify.log")) else ""
        runs = re.findall(r"check (C\d+) exit=(\d+) (\d+) violation", log)
        cid = sid[:3]
        first = [r for r in runs if r[0] == cid][:1]
        last = [r for r in runs if r[0] == cid][-1:]
        others = sorted(set(r[0] for r in runs if r[0] != cid and r[1] == "1"))
        fr = "caught" if first and first[0][1] == "1" else ("missed" if first else "-")
        lr = "caught" if last and last[0][1] == "1" else ("missed" if last else "-")
        if len([r for r in runs if r[0] == cid]) < 2:
            lr = "(not needed)" if fr == "caught" else lr
        if others:
            lr += "; also caught by " + ",".join(others)
        files = ", ".join(os.path.basename(f) for f in meta.get("files", []))[:80]
        needs = str(meta.get("needs", "")).replace("|", "/").replace("\n", " ")
        if len(needs) > 330:
            needs = needs[:330] + " ..."
        out.append("| %s | %s | %s | %s | %s |" % (sid, files, needs, fr, lr))
    return "\n".join(out)


def main():
    p = os.path.join(V, "DESIGN.md")
    s = open(p).read()
    for name, fn in (("findings", findings_tables), ("seeded", seeded_table)):
        b, e = "<!-- BEGIN GENERATED %s -->" % name, "<!-- END GENERATED %s -->" % name
        if b in s and e in s:
            i, j = s.index(b) + len(b), s.index(e)
            s = s[:i] + "\n" + fn() + "\n" + s[j:]
    open(p, "w").write(s)


if __name__ == "__main__":
    main()
