#!/bin/bash
# create a fully built scratch git worktree of /repo for a mutation sub-agent: tools/mkmut.sh <name>
set -e
D=/tmp/mut_$1
git -C /repo worktree remove --force $D 2>/dev/null || true
rm -rf $D ${D}_out ${D}_demo
git -C /repo worktree add --detach $D HEAD >/dev/null 2>&1
rsync -a --exclude .git /repo/ $D/
mkdir -p ${D}_out ${D}_demo
echo $D
