/* src/include/config.h.  Generated from config.h.in by configure.  */
/* src/include/config.h.in.  Generated from configure.ac by autoheader.  */

/*
 * Copyright (C) 2003, Northwestern University and Argonne National Laboratory
 * See COPYRIGHT notice in top-level directory.
 */


#ifndef H_CONFIG
#define H_CONFIG

/* Define if building universal (internal helper macro) */
/* #undef AC_APPLE_UNIVERSAL_BUILD */

/* Define if to enable ADIOS BP read feature */
/* #undef ENABLE_ADIOS */

/* Define if to enable burst buffer feature */
/* #undef ENABLE_BURST_BUFFER */

/* Define if to enable C++ feature */
#define ENABLE_CXX 1

/* Define if to enable Fortran feature */
/* #undef ENABLE_FORTRAN */

/* Define if to enable NetCDF-4 support */
/* #undef ENABLE_NETCDF4 */

/* Define if to enable strict null-byte padding in file header */
/* #undef ENABLE_NULL_BYTE_HEADER_PADDING */

/* Define if able to support request aggregation in nonblocking routines */
#define ENABLE_REQ_AGGREGATION 1

/* Define if to enable subfiling feature */
/* #undef ENABLE_SUBFILING */

/* Define if to enable thread-safe capability */
/* #undef ENABLE_THREAD_SAFE */

/* Define if Fortran names are lower case */
/* #undef F77_NAME_LOWER */

/* Define if Fortran names are lower case with two trailing underscore2 */
/* #undef F77_NAME_LOWER_2USCORE */

/* Define if Fortran names are lower case with one trailing underscore */
/* #undef F77_NAME_LOWER_USCORE */

/* Define if Fortran names are uppercase */
/* #undef F77_NAME_UPPER */

/* Define to dummy `main' function (if any) required to link to the Fortran
   libraries. */
/* #undef FC_DUMMY_MAIN */

/* Define if F77 and FC dummy `main' functions are identical. */
/* #undef FC_DUMMY_MAIN_EQ_F77 */

/* Define to 1 if you have the `access' function. */
#define HAVE_ACCESS 1

/* Define to 1 if you have the <adios2_c.h> header file. */
/* #undef HAVE_ADIOS2_C_H */

/* Define to 1 if you have the <adios_read.h> header file. */
/* #undef HAVE_ADIOS_READ_H */

/* available */
/* #undef HAVE_DECL_MPI_OFFSET */

/* Define to 1 if you have the <dlfcn.h> header file. */
#define HAVE_DLFCN_H 1

/* Define to 1 if the system has the type `int64'. */
/* #undef HAVE_INT64 */

/* Define to 1 if you have the <inttypes.h> header file. */
#define HAVE_INTTYPES_H 1

/* Define to 1 if you have the `pthread' library (-lpthread). */
/* #undef HAVE_LIBPTHREAD */

/* Define to 1 if the system has the type `longlong'. */
/* #undef HAVE_LONGLONG */

/* Define to 1 if you have the `lstat' function. */
#define HAVE_LSTAT 1

/* Define to 1 if you have the `MPI_Bcast_c' function. */
/* #undef HAVE_MPI_BCAST_C */

/* Define if MPI_COMBINER_HINDEXED_INTEGER is defined and not deprecated */
/* #undef HAVE_MPI_COMBINER_HINDEXED_INTEGER */

/* Define if MPI_COMBINER_HVECTOR_INTEGER is defined and not deprecated */
/* #undef HAVE_MPI_COMBINER_HVECTOR_INTEGER */

/* Define if MPI_COMBINER_STRUCT_INTEGER is defined and not deprecated */
/* #undef HAVE_MPI_COMBINER_STRUCT_INTEGER */

/* Define to 1 if you have the `MPI_Get_count_c' function. */
/* #undef HAVE_MPI_GET_COUNT_C */

/* Define if required MPI APIs have arguments of type MPI_Count */
/* #undef HAVE_MPI_LARGE_COUNT */

/* Define to 1 if you have the `MPI_Pack_c' function. */
/* #undef HAVE_MPI_PACK_C */

/* Define to 1 if you have the `MPI_Type_contiguous_c' function. */
/* #undef HAVE_MPI_TYPE_CONTIGUOUS_C */

/* Define to 1 if you have the `MPI_Type_create_hindexed_c' function. */
/* #undef HAVE_MPI_TYPE_CREATE_HINDEXED_C */

/* Define to 1 if you have the `MPI_Type_create_hvector_c' function. */
/* #undef HAVE_MPI_TYPE_CREATE_HVECTOR_C */

/* Define to 1 if you have the `MPI_Type_create_struct_c' function. */
/* #undef HAVE_MPI_TYPE_CREATE_STRUCT_C */

/* Define to 1 if you have the `MPI_Type_create_subarray_c' function. */
/* #undef HAVE_MPI_TYPE_CREATE_SUBARRAY_C */

/* Define to 1 if you have the `MPI_Type_get_contents_c' function. */
/* #undef HAVE_MPI_TYPE_GET_CONTENTS_C */

/* Define to 1 if you have the `MPI_Type_get_envelope_c' function. */
/* #undef HAVE_MPI_TYPE_GET_ENVELOPE_C */

/* Define to 1 if you have the `MPI_Type_get_true_extent_c' function. */
/* #undef HAVE_MPI_TYPE_GET_TRUE_EXTENT_C */

/* Define to 1 if you have the `MPI_Type_get_true_extent_x' function. */
#define HAVE_MPI_TYPE_GET_TRUE_EXTENT_X 1

/* Define to 1 if you have the `MPI_Type_size_c' function. */
/* #undef HAVE_MPI_TYPE_SIZE_C */

/* Define to 1 if you have the `MPI_Type_size_x' function. */
#define HAVE_MPI_TYPE_SIZE_X 1

/* Define to 1 if you have the `MPI_Type_vector_c' function. */
/* #undef HAVE_MPI_TYPE_VECTOR_C */

/* Define to 1 if you have the `MPI_Unpack_c' function. */
/* #undef HAVE_MPI_UNPACK_C */

/* Define to 1 if you have the <netcdf_meta.h> header file. */
/* #undef HAVE_NETCDF_META_H */

/* Define to 1 if you have the <netcdf_par.h> header file. */
/* #undef HAVE_NETCDF_PAR_H */

/* Define to 1 if you have the `open' function. */
#define HAVE_OPEN 1

/* Define to 1 if the system has the type `ptrdiff_t'. */
#define HAVE_PTRDIFF_T 1

/* Define to 1 if the system has the type `schar'. */
/* #undef HAVE_SCHAR */

/* Define to 1 if you have the <search.h> header file. */
#define HAVE_SEARCH_H 1

/* Define to 1 if stdbool.h conforms to C99. */
#define HAVE_STDBOOL_H 1

/* Define to 1 if you have the <stdint.h> header file. */
#define HAVE_STDINT_H 1

/* Define to 1 if you have the <stdio.h> header file. */
#define HAVE_STDIO_H 1

/* Define to 1 if you have the <stdlib.h> header file. */
#define HAVE_STDLIB_H 1

/* Define to 1 if you have the `strcasecmp' function. */
#define HAVE_STRCASECMP 1

/* Define to 1 if you have the `strdup' function. */
#define HAVE_STRDUP 1

/* Define to 1 if you have the `strerror' function. */
#define HAVE_STRERROR 1

/* Define to 1 if you have the <strings.h> header file. */
#define HAVE_STRINGS_H 1

/* Define to 1 if you have the <string.h> header file. */
#define HAVE_STRING_H 1

/* Define to 1 if you have the `symlink' function. */
#define HAVE_SYMLINK 1

/* Define to 1 if you have the <sys/stat.h> header file. */
#define HAVE_SYS_STAT_H 1

/* Define to 1 if you have the <sys/types.h> header file. */
#define HAVE_SYS_TYPES_H 1

/* Define to 1 if you have the `tdelete' function. */
#define HAVE_TDELETE 1

/* Define to 1 if you have the `truncate' function. */
#define HAVE_TRUNCATE 1

/* Define to 1 if you have the `tsearch' function. */
#define HAVE_TSEARCH 1

/* Define to 1 if the system has the type `uchar'. */
/* #undef HAVE_UCHAR */

/* Define to 1 if the system has the type `uint'. */
#define HAVE_UINT 1

/* Define to 1 if the system has the type `uint64'. */
/* #undef HAVE_UINT64 */

/* Define to 1 if the system has the type `ulonglong'. */
/* #undef HAVE_ULONGLONG */

/* Define to 1 if you have the <unistd.h> header file. */
#define HAVE_UNISTD_H 1

/* Define to 1 if you have the `unlink' function. */
#define HAVE_UNLINK 1

/* Define to 1 if the system has the type `ushort'. */
#define HAVE_USHORT 1

/* Define to 1 if you have the `usleep' function. */
/* #undef HAVE_USLEEP */

/* Define to 1 if the system has the type `_Bool'. */
#define HAVE__BOOL 1

/* Define if HDF5 version is at least 1.10.4 */
/* #undef HDF5_VER_GE_1_10_4 */

/* Define to the sub-directory where libtool stores uninstalled libraries. */
#define LT_OBJDIR ".libs/"

/* Type of NC_BYTE */
/* #undef NCBYTE_T */

/* Type of NC_SHORT */
/* #undef NCSHORT_T */

/* Define if NetCDF version is at least 4.5.0 */
/* #undef NETCDF_GE_4_5_0 */

/* C type for Fortran double */
/* #undef NF_DOUBLEPRECISION_IS_C_ */

/* C type for Fortran INT1 */
/* #undef NF_INT1_IS_C_ */

/* Type for Fortran INT1 */
/* #undef NF_INT1_T */

/* C type for Fortran INT2 */
/* #undef NF_INT2_IS_C_ */

/* Type for Fortran INT2 */
/* #undef NF_INT2_T */

/* C type for Fortran INT8 */
/* #undef NF_INT8_IS_C_ */

/* Type for Fortran INT8 */
/* #undef NF_INT8_T */

/* C type for Fortran INT */
/* #undef NF_INT_IS_C_ */

/* C type for Fortran REAL */
/* #undef NF_REAL_IS_C_ */

/* Does system have IEEE FLOAT */
/* #undef NO_IEEE_FLOAT */

/* Name of package */
#define PACKAGE "pnetcdf"

/* Define to the address where bug reports for this package should be sent. */
#define PACKAGE_BUGREPORT "parallel-netcdf@mcs.anl.gov"

/* Define to the full name of this package. */
#define PACKAGE_NAME "PnetCDF"

/* Define to the full name and version of this package. */
#define PACKAGE_STRING "PnetCDF 1.14.0"

/* Define to the one symbol short name of this package. */
#define PACKAGE_TARNAME "pnetcdf"

/* Define to the home page for this package. */
#define PACKAGE_URL "https://parallel-netcdf.github.io"

/* Define to the version of this package. */
#define PACKAGE_VERSION "1.14.0"

/* Define if to enable malloc tracing */
/* #undef PNC_MALLOC_TRACE */

/* Define if to enable PnetCDF internal performance profiling */
/* #undef PNETCDF_PROFILING */

/* Define if relaxed coordinate check is enabled */
#define RELAX_COORD_BOUND 1

/* The size of `char', as computed by sizeof. */
#define SIZEOF_CHAR 1

/* The size of `double', as computed by sizeof. */
#define SIZEOF_DOUBLE 8

/* The size of `float', as computed by sizeof. */
#define SIZEOF_FLOAT 4

/* The size of `int', as computed by sizeof. */
#define SIZEOF_INT 4

/* The size of `long', as computed by sizeof. */
#define SIZEOF_LONG 8

/* The size of `longlong', as computed by sizeof. */
/* #undef SIZEOF_LONGLONG */

/* The size of `long long', as computed by sizeof. */
#define SIZEOF_LONG_LONG 8

/* The size of `MPI_Aint', as computed by sizeof. */
#define SIZEOF_MPI_AINT 8

/* The size of `MPI_Fint', as computed by sizeof. */
/* #undef SIZEOF_MPI_FINT */

/* The size of `MPI_Offset', as computed by sizeof. */
#define SIZEOF_MPI_OFFSET 8

/* The size of `off_t', as computed by sizeof. */
#define SIZEOF_OFF_T 8

/* The size of `ptrdiff_t', as computed by sizeof. */
#define SIZEOF_PTRDIFF_T 8

/* The size of `schar', as computed by sizeof. */
/* #undef SIZEOF_SCHAR */

/* The size of `short', as computed by sizeof. */
#define SIZEOF_SHORT 2

/* The size of `signed char', as computed by sizeof. */
#define SIZEOF_SIGNED_CHAR 1

/* The size of `size_t', as computed by sizeof. */
#define SIZEOF_SIZE_T 8

/* The size of `uchar', as computed by sizeof. */
/* #undef SIZEOF_UCHAR */

/* The size of `uint', as computed by sizeof. */
#define SIZEOF_UINT 4

/* The size of `ulonglong', as computed by sizeof. */
/* #undef SIZEOF_ULONGLONG */

/* The size of `unsigned char', as computed by sizeof. */
#define SIZEOF_UNSIGNED_CHAR 1

/* The size of `unsigned int', as computed by sizeof. */
#define SIZEOF_UNSIGNED_INT 4

/* The size of `unsigned long long', as computed by sizeof. */
#define SIZEOF_UNSIGNED_LONG_LONG 8

/* The size of `unsigned short', as computed by sizeof. */
#define SIZEOF_UNSIGNED_SHORT 2

/* The size of `unsigned short int', as computed by sizeof. */
#define SIZEOF_UNSIGNED_SHORT_INT 2

/* The size of `ushort', as computed by sizeof. */
#define SIZEOF_USHORT 2

/* Define to 1 if all of the C90 standard headers exist (not just the ones
   required in a freestanding environment). This macro is provided for
   backward compatibility; new code need not use it. */
#define STDC_HEADERS 1

/* Define if performing coverage tests */
/* #undef USE_COVERAGE */

/* Version number of package */
#define VERSION "1.14.0"

/* Define WORDS_BIGENDIAN to 1 if your processor stores words with the most
   significant byte first (like Motorola and SPARC, unlike Intel). */
#if defined AC_APPLE_UNIVERSAL_BUILD
# if defined __BIG_ENDIAN__
#  define WORDS_BIGENDIAN 1
# endif
#else
# ifndef WORDS_BIGENDIAN
/* #  undef WORDS_BIGENDIAN */
# endif
#endif

/* Number of bits in a file offset, on hosts where this is settable. */
/* #undef _FILE_OFFSET_BITS */

/* Define for large files, on AIX-style hosts. */
/* #undef _LARGE_FILES */

/* Define to 1 if type `char' is unsigned and your compiler does not
   predefine this macro.  */
#ifndef __CHAR_UNSIGNED__
/* # undef __CHAR_UNSIGNED__ */
#endif

/* Define to `__inline__' or `__inline' if that's what the C compiler
   calls it, or to nothing if 'inline' is not supported under any name.  */
#ifndef __cplusplus
/* #undef inline */
#endif

/* Define to `long int' if <sys/types.h> does not define. */
/* #undef off_t */

/* Define to `unsigned int' if <sys/types.h> does not define. */
/* #undef size_t */

/* Define to `int' if <sys/types.h> does not define. */
/* #undef ssize_t */

#include <nctypes.h>
#endif
