/*
 *  Copyright (C) 2003, Northwestern University and Argonne National Laboratory
 *  See COPYRIGHT notice in top-level directory.
 *
 * $Id$
 *
 * src/include/pnetcdf.h.  Generated from pnetcdf.h.in by configure.
 */

#ifndef H_PNETCDF
#define H_PNETCDF

#include <mpi.h>

#define PNETCDF_VERSION       "1.14.0"
#define PNETCDF_VERSION_MAJOR 1
#define PNETCDF_VERSION_MINOR 14
#define PNETCDF_VERSION_SUB   0
#define PNETCDF_RELEASE_DATE  "DIST_DATE"

/* List of PnetCDF features enabled/disabled at configure time.
 * 0: disabled, 1: enabled, -1: auto
 */
#define PNETCDF_ENABLE_FORTRAN           0
#define PNETCDF_ENABLE_CXX               1
#define PNETCDF_ERANGE_FILL              1
#define PNETCDF_SUBFILING                0
#define PNETCDF_RELAX_COORD_BOUND        1
#define PNETCDF_DEBUG_MODE               0
#define PNETCDF_NULL_BYTE_HEADER_PADDING 0
#define PNETCDF_BYTE_SWAP_IN_PLACE       -1
#define PNETCDF_BURST_BUFFERING          0
#define PNETCDF_THREAD_SAFE              0
#define PNETCDF_DRIVER_NETCDF4           0
#define PNETCDF_DRIVER_ADIOS             0

#if defined(__cplusplus)
extern "C" {
#endif

/* NetCDF data types and their corresponding external types in C convention
 * and type names used in PnetCDF APIs:
    NC_BYTE   :   signed char       (for _schar     APIs)
    NC_CHAR   : unsigned char       (for _text      APIs)
    NC_SHORT  :   signed short int  (for _short     APIs)
    NC_INT    :   signed int        (for _int       APIs)
    NC_FLOAT  :          float      (for _float     APIs)
    NC_DOUBLE :          double     (for _double    APIs)
    NC_UBYTE  : unsigned char       (for _ubyte and
                                         _uchar     APIs)
    NC_USHORT : unsigned short int  (for _ushort    APIs)
    NC_UINT   : unsigned int        (for _uint      APIs)
    NC_INT64  :   signed long long  (for _longlong  APIs)
    NC_UINT64 : unsigned long long  (for _ulonglong APIs)
 */

/* Many constants defined in PnetCDF share the same values as NetCDF.
 * Below we keep a portion of exact same copy of netcdf.h (version 4.4.1.1)
 */
#ifndef _NETCDF_

/*! The nc_type type is just an int. */
typedef int nc_type;

/*
 *  The netcdf external data types
 */
#define NC_NAT          0       /**< Not A Type */
#define NC_BYTE         1       /**< signed 1 byte integer */
#define NC_CHAR         2       /**< ISO/ASCII character */
#define NC_SHORT        3       /**< signed 2 byte integer */
#define NC_INT          4       /**< signed 4 byte integer */
#define NC_LONG         NC_INT  /**< \deprecated required for backward compatibility. */
#define NC_FLOAT        5       /**< single precision floating point number */
#define NC_DOUBLE       6       /**< double precision floating point number */
#define NC_UBYTE        7       /**< unsigned 1 byte int */
#define NC_USHORT       8       /**< unsigned 2-byte int */
#define NC_UINT         9       /**< unsigned 4-byte int */
#define NC_INT64        10      /**< signed 8-byte int */
#define NC_UINT64       11      /**< unsigned 8-byte int */
#define NC_STRING       12      /**< string */

#define NC_MAX_ATOMIC_TYPE NC_STRING /**< @internal Largest atomic type. */

/* The following are use internally in support of user-defines
 * types. They are also the class returned by nc_inq_user_type. */
#define NC_VLEN         13      /**< vlen (variable-length) types */
#define NC_OPAQUE       14      /**< opaque types */
#define NC_ENUM         15      /**< enum types */
#define NC_COMPOUND     16      /**< compound types */

/** @internal Define the first user defined type id (leave some
 * room) */
#define NC_FIRSTUSERTYPEID 32

/** Default fill value. This is used unless _FillValue attribute
 * is set.  These values are stuffed into newly allocated space as
 * appropriate.  The hope is that one might use these to notice that a
 * particular datum has not been set. */
/**@{*/
#define NC_FILL_BYTE    ((signed char)-127)
#define NC_FILL_CHAR    ((char)0)
#define NC_FILL_SHORT   ((short)-32767)
#define NC_FILL_INT     (-2147483647)
#define NC_FILL_FLOAT   (9.9692099683868690e+36f) /* near 15 * 2^119 */
#define NC_FILL_DOUBLE  (9.9692099683868690e+36)
#define NC_FILL_UBYTE   (255)
#define NC_FILL_USHORT  (65535)
#define NC_FILL_UINT    (4294967295U)
#define NC_FILL_INT64   ((long long)-9223372036854775806LL)
#define NC_FILL_UINT64  ((unsigned long long)18446744073709551614ULL)
#define NC_FILL_STRING  ((char *)"")
/**@}*/

/*! Max or min values for a type. Nothing greater/smaller can be
 * stored in a netCDF file for their associated types. Recall that a C
 * compiler may define int to be any length it wants, but a NC_INT is
 * *always* a 4 byte signed int. On a platform with 64 bit ints,
 * there will be many ints which are outside the range supported by
 * NC_INT. But since NC_INT is an external format, it has to mean the
 * same thing everywhere. */
/**@{*/
#define NC_MAX_BYTE 127
#define NC_MIN_BYTE (-NC_MAX_BYTE-1)
#define NC_MAX_CHAR 255
#define NC_MAX_SHORT 32767
#define NC_MIN_SHORT (-NC_MAX_SHORT - 1)
#define NC_MAX_INT 2147483647
#define NC_MIN_INT (-NC_MAX_INT - 1)
#define NC_MAX_FLOAT 3.402823466e+38f
#define NC_MIN_FLOAT (-NC_MAX_FLOAT)
#define NC_MAX_DOUBLE 1.7976931348623157e+308
#define NC_MIN_DOUBLE (-NC_MAX_DOUBLE)
#define NC_MAX_UBYTE NC_MAX_CHAR
#define NC_MAX_USHORT 65535U
#define NC_MAX_UINT 4294967295U
#define NC_MAX_INT64 (9223372036854775807LL)
#define NC_MIN_INT64 (-9223372036854775807LL-1LL)
#define NC_MAX_UINT64 (18446744073709551615ULL)
/**@}*/

/** Name of fill value attribute.  If you wish a variable to use a
 * different value than the above defaults, create an attribute with
 * the same type as the variable and this reserved name. The value you
 * give the attribute will be used as the fill value for that
 * variable. */
#define NC_FillValue    "_FillValue"
#define NC_FILL         0       /**< Argument to nc_set_fill() to clear NC_NOFILL */
#define NC_NOFILL       0x100   /**< Argument to nc_set_fill() to turn off filling of data. */

/* Define the ioflags bits for nc_create and nc_open.
   Currently unused in lower 16 bits:
        0x0002
   All upper 16 bits are unused except
        0x20000
*/

/* Lower 16 bits */

#define NC_NOWRITE       0x0000 /**< Set read-only access for nc_open(). */
#define NC_WRITE         0x0001 /**< Set read-write access for nc_open(). */

#define NC_CLOBBER       0x0000 /**< Destroy existing file. Mode flag for nc_create(). */
#define NC_NOCLOBBER     0x0004 /**< Don't destroy existing file. Mode flag for nc_create(). */
#define NC_DISKLESS      0x0008  /**< Use diskless file. Mode flag for nc_open() or nc_create(). */
#define NC_MMAP          0x0010  /**< \deprecated Use diskless file with mmap. Mode flag for nc_open() or nc_create()*/

#define NC_64BIT_DATA    0x0020  /**< CDF-5 format: classic model but 64 bit dimensions and sizes */
#define NC_CDF5          NC_64BIT_DATA  /**< Alias NC_CDF5 to NC_64BIT_DATA */

#define NC_UDF0          0x0040  /**< User-defined format 0. */
#define NC_UDF1          0x0080  /**< User-defined format 1. */

#define NC_CLASSIC_MODEL 0x0100 /**< Enforce classic model on netCDF-4. Mode flag for nc_create(). */
#define NC_64BIT_OFFSET  0x0200  /**< Use large (64-bit) file offsets. Mode flag for nc_create(). */

/** \deprecated The following flag currently is ignored, but use in
 * nc_open() or nc_create() may someday support use of advisory
 * locking to prevent multiple writers from clobbering a file
 */
#define NC_LOCK          0x0400

/** Share updates, limit caching.
Use this in mode flags for both nc_create() and nc_open(). */
#define NC_SHARE         0x0800

#define NC_NETCDF4       0x1000  /**< Use netCDF-4/HDF5 format. Mode flag for nc_create(). */

/** The following 3 flags are deprecated as of 4.6.2. Parallel I/O is now
 * initiated by calling nc_create_par and nc_open_par, no longer by flags.
 */
#define NC_MPIIO         0x2000 /**< \deprecated */
#define NC_MPIPOSIX      NC_MPIIO /**< \deprecated */
#define NC_PNETCDF       (NC_MPIIO) /**< \deprecated */

#define NC_PERSIST       0x4000  /**< Save diskless contents to disk. Mode flag for nc_open() or nc_create() */
#define NC_INMEMORY      0x8000  /**< Read from memory. Mode flag for nc_open() or nc_create() */

/* Upper 16 bits */
#define NC_NOATTCREORD  0x20000 /**< Disable the netcdf-4 (hdf5) attribute creation order tracking */

#define NC_MAX_MAGIC_NUMBER_LEN 8 /**< Max len of user-defined format magic number. */

/** Format specifier for nc_set_default_format() and returned
 *  by nc_inq_format. This returns the format as provided by
 *  the API. See nc_inq_format_extended to see the true file format.
 *  Starting with version 3.6, there are different format netCDF files.
 *  4.0 introduces the third one. \see netcdf_format
 */
/**@{*/
#define NC_FORMAT_CLASSIC         (1)
/* After adding CDF5 support, the NC_FORMAT_64BIT
   flag is somewhat confusing. So, it is renamed.
   Note that the name in the contributed code
   NC_FORMAT_64BIT was renamed to NC_FORMAT_CDF2
*/
#define NC_FORMAT_64BIT_OFFSET    (2)
#define NC_FORMAT_64BIT           (NC_FORMAT_64BIT_OFFSET) /**< \deprecated Saved for compatibility.  Use NC_FORMAT_64BIT_OFFSET or NC_FORMAT_64BIT_DATA, from netCDF 4.4.0 onwards. */
#define NC_FORMAT_NETCDF4         (3)
#define NC_FORMAT_NETCDF4_CLASSIC (4)
#define NC_FORMAT_64BIT_DATA      (5)

/* Alias */
#define NC_FORMAT_CDF5    NC_FORMAT_64BIT_DATA

/* Define a mask covering format flags only */
#define NC_FORMAT_ALL (NC_64BIT_OFFSET|NC_64BIT_DATA|NC_CLASSIC_MODEL|NC_NETCDF4|NC_UDF0|NC_UDF1)

/**@}*/

/** Extended format specifier returned by  nc_inq_format_extended()
 *  Added in version 4.3.1. This returns the true format of the
 *  underlying data.
 * The function returns two values
 * 1. a small integer indicating the underlying source type
 *    of the data. Note that this may differ from what the user
 *    sees from nc_inq_format() because this latter function
 *    returns what the user can expect to see thru the API.
 * 2. A mode value indicating what mode flags are effectively
 *    set for this dataset. This usually will be a superset
 *    of the mode flags used as the argument to nc_open
 *    or nc_create.
 * More or less, the #1 values track the set of dispatch tables.
 * The #1 values are as follows.
 * Note that CDF-5 returns NC_FORMAT_NC3, but sets the mode flag properly.
 */
/**@{*/

#define NC_FORMATX_NC3       (1)
#define NC_FORMATX_NC_HDF5   (2) /**< netCDF-4 subset of HDF5 */
#define NC_FORMATX_NC4       NC_FORMATX_NC_HDF5 /**< alias */
#define NC_FORMATX_NC_HDF4   (3) /**< netCDF-4 subset of HDF4 */
#define NC_FORMATX_PNETCDF   (4)
#define NC_FORMATX_DAP2      (5)
#define NC_FORMATX_DAP4      (6)
#define NC_FORMATX_UDF0      (8)
#define NC_FORMATX_UDF1      (9)
#define NC_FORMATX_NCZARR    (10)
#define NC_FORMATX_UNDEFINED (0)

  /* To avoid breaking compatibility (such as in the python library),
   we need to retain the NC_FORMAT_xxx format as well. This may come
  out eventually, as the NC_FORMATX is more clear that it's an extended
  format specifier.*/

#define NC_FORMAT_NC3       NC_FORMATX_NC3 /**< \deprecated As of 4.4.0, use NC_FORMATX_NC3 */
#define NC_FORMAT_NC_HDF5   NC_FORMATX_NC_HDF5 /**< \deprecated As of 4.4.0, use NC_FORMATX_NC_HDF5 */
#define NC_FORMAT_NC4       NC_FORMATX_NC4 /**< \deprecated As of 4.4.0, use NC_FORMATX_NC4 */
#define NC_FORMAT_NC_HDF4   NC_FORMATX_NC_HDF4 /**< \deprecated As of 4.4.0, use NC_FORMATX_HDF4 */
#define NC_FORMAT_PNETCDF   NC_FORMATX_PNETCDF /**< \deprecated As of 4.4.0, use NC_FORMATX_PNETCDF */
#define NC_FORMAT_DAP2      NC_FORMATX_DAP2 /**< \deprecated As of 4.4.0, use NC_FORMATX_DAP2 */
#define NC_FORMAT_DAP4      NC_FORMATX_DAP4 /**< \deprecated As of 4.4.0, use NC_FORMATX_DAP4 */
#define NC_FORMAT_UNDEFINED NC_FORMATX_UNDEFINED /**< \deprecated As of 4.4.0, use NC_FORMATX_UNDEFINED */

/**@}*/

/** Let nc__create() or nc__open() figure out a suitable buffer size. */
#define NC_SIZEHINT_DEFAULT 0

/** In nc__enddef(), align to the buffer size. */
#define NC_ALIGN_CHUNK ((size_t)(-1))

/** Size argument to nc_def_dim() for an unlimited dimension. */
#define NC_UNLIMITED 0L

/** Attribute id to put/get a global attribute. */
#define NC_GLOBAL -1

/**
Maximum for classic library.

In the classic netCDF model there are maximum values for the number of
dimensions in the file (\ref NC_MAX_DIMS), the number of global or per
variable attributes (\ref NC_MAX_ATTRS), the number of variables in
the file (\ref NC_MAX_VARS), and the length of a name (\ref
NC_MAX_NAME).

These maximums are enforced by the interface, to facilitate writing
applications and utilities.  However, nothing is statically allocated
to these sizes internally.

These maximums are not used for netCDF-4/HDF5 files unless they were
created with the ::NC_CLASSIC_MODEL flag.

As a rule, NC_MAX_VAR_DIMS <= NC_MAX_DIMS.

NOTE: The NC_MAX_DIMS, NC_MAX_ATTRS, and NC_MAX_VARS limits
      are *not* enforced after version 4.5.0

#define NC_MAX_DIMS     1024 (not enforced after 4.5.0)
#define NC_MAX_ATTRS    8192 (not enforced after 4.5.0)
#define NC_MAX_VARS     8192 (not enforced after 4.5.0)
#define NC_MAX_NAME     256
#define NC_MAX_VAR_DIMS 1024 (max per variable dimensions)
*/
/**@{*/

/* The following 4 constants are different between NetCDF and PnetCDF since
 * PnetCDF 1.9.0 and NetCDF 4.5.0. They must be redefined in PnetCDF.
 */
#define NC_MAX_DIMS	NC_MAX_INT
#define NC_MAX_ATTRS	NC_MAX_INT
#define NC_MAX_VARS	NC_MAX_INT
#define NC_MAX_NAME	256
#define NC_MAX_VAR_DIMS	NC_MAX_INT  /* max per-variable dimensions */

/** The max size of an SD dataset name in HDF4 (from HDF4
 * documentation) is 64. But in in the wild we have encountered longer
 * names. As long as the HDF4 name is not greater than NC_MAX_NAME,
 * our code will be OK. */
#define NC_MAX_HDF4_NAME NC_MAX_NAME

/** In HDF5 files you can set the endianness of variables with
    nc_def_var_endian(). This define is used there. */
/**@{*/
#define NC_ENDIAN_NATIVE 0
#define NC_ENDIAN_LITTLE 1
#define NC_ENDIAN_BIG    2
/**@}*/

/** In HDF5 files you can set storage for each variable to be either
 * contiguous or chunked, with nc_def_var_chunking().  This define is
 * used there. Unknown storage is used for further extensions of HDF5
 * storage models, which should be handled transparently by netcdf */
/**@{*/
#define NC_CHUNKED         0
#define NC_CONTIGUOUS      1
#define NC_COMPACT         2
#define NC_UNKNOWN_STORAGE 3
#define NC_VIRTUAL         4
/**@}*/

/** In HDF5 files you can set check-summing for each variable.
Currently the only checksum available is Fletcher-32, which can be set
with the function nc_def_var_fletcher32.  These defines are used
there. */
/**@{*/
#define NC_NOCHECKSUM 0
#define NC_FLETCHER32 1
/**@}*/

/**@{*/
/** Control the HDF5 shuffle filter. In HDF5 files you can specify
 * that a shuffle filter should be used on each chunk of a variable to
 * improve compression for that variable. This per-variable shuffle
 * property can be set with the function nc_def_var_deflate(). */
#define NC_NOSHUFFLE 0
#define NC_SHUFFLE   1
/**@}*/

#define NC_MIN_DEFLATE_LEVEL 0 /**< Minimum deflate level. */
#define NC_MAX_DEFLATE_LEVEL 9 /**< Maximum deflate level. */

#define NC_NOQUANTIZE 0 /**< No quantization in use. */
#define NC_QUANTIZE_BITGROOM 1 /**< Use BitGroom quantization. */
#define NC_QUANTIZE_GRANULARBR 2 /**< Use Granular BitRound quantization. */

/** When quantization is used for a variable, an attribute of the
 * appropriate name is added. */
#define NC_QUANTIZE_BITGROOM_ATT_NAME "_QuantizeBitgroomNumberOfSignificantDigits"
#define NC_QUANTIZE_GRANULARBR_ATT_NAME "_QuantizeGranularBitRoundNumberOfSignificantDigits"

/** For quantization, the allowed value of number of significant
 * digits for float. */
#define NC_QUANTIZE_MAX_FLOAT_NSD (7)

/** For quantization, the allowed value of number of significant
 * digits for double. */
#define NC_QUANTIZE_MAX_DOUBLE_NSD (15)

/** The netcdf version 3 functions all return integer error status.
 * These are the possible values, in addition to certain values from
 * the system errno.h.
 */
#define NC_ISSYSERR(err)        ((err) > 0)

#define NC_NOERR        0          /**< No Error */
#define NC2_ERR         (-1)       /**< Returned for all errors in the v2 API. */

/** Not a netcdf id.

The specified netCDF ID does not refer to an
open netCDF dataset. */
#define	NC_EBADID	(-33)
#define	NC_ENFILE	(-34)	   /**< Too many netcdfs open */
#define	NC_EEXIST	(-35)	   /**< netcdf file exists && NC_NOCLOBBER */
#define	NC_EINVAL	(-36)	   /**< Invalid Argument */
#define	NC_EPERM	(-37)	   /**< Write to read only */

/** Operation not allowed in data mode. This is returned for netCDF
classic or 64-bit offset files, or for netCDF-4 files, when they were
been created with ::NC_CLASSIC_MODEL flag in nc_create(). */
#define NC_ENOTINDEFINE	(-38)

/** Operation not allowed in define mode.

The specified netCDF is in define mode rather than data mode.

With netCDF-4/HDF5 files, this error will not occur, unless
::NC_CLASSIC_MODEL was used in nc_create().
 */
#define	NC_EINDEFINE	(-39)

/** Index exceeds dimension bound.

The specified corner indices were out of range for the rank of the
specified variable. For example, a negative index or an index that is
larger than the corresponding dimension length will cause an error. */
#define	NC_EINVALCOORDS	(-40)

/** NC_MAX_DIMS exceeded. Max number of dimensions exceeded in a
classic or 64-bit offset file, or an netCDF-4 file with
::NC_CLASSIC_MODEL on. */
#define	NC_EMAXDIMS	(-41) /* not enforced after 4.5.0 */

#define	NC_ENAMEINUSE	(-42)	   /**< String match to name in use */
#define NC_ENOTATT	(-43)	   /**< Attribute not found */
#define	NC_EMAXATTS	(-44)	   /**< NC_MAX_ATTRS exceeded - not enforced after 4.5.0 */
#define NC_EBADTYPE	(-45)	   /**< Not a netcdf data type */
#define NC_EBADDIM	(-46)	   /**< Invalid dimension id or name */
#define NC_EUNLIMPOS	(-47)	   /**< NC_UNLIMITED in the wrong index */

/** NC_MAX_VARS exceeded. Max number of variables exceeded in a
classic or 64-bit offset file, or an netCDF-4 file with
::NC_CLASSIC_MODEL on. */
#define	NC_EMAXVARS	(-48) /* not enforced after 4.5.0 */

/** Variable not found.

The variable ID is invalid for the specified netCDF dataset. */
#define NC_ENOTVAR	(-49)
#define NC_EGLOBAL	(-50)	   /**< Action prohibited on NC_GLOBAL varid */
#define NC_ENOTNC	(-51)	   /**< Not a netcdf file */
#define NC_ESTS        	(-52)	   /**< In Fortran, string too short */
#define NC_EMAXNAME    	(-53)	   /**< NC_MAX_NAME exceeded */
#define NC_EUNLIMIT    	(-54)	   /**< NC_UNLIMITED size already in use */
#define NC_ENORECVARS  	(-55)	   /**< nc_rec op when there are no record vars */
#define NC_ECHAR	(-56)	   /**< Attempt to convert between text & numbers */

/** Start+count exceeds dimension bound.

The specified edge lengths added to the specified corner would have
referenced data out of range for the rank of the specified
variable. For example, an edge length that is larger than the
corresponding dimension length minus the corner index will cause an
error. */
#define NC_EEDGE        (-57)      /**< Start+count exceeds dimension bound. */
#define NC_ESTRIDE      (-58)      /**< Illegal stride */
#define NC_EBADNAME     (-59)      /**< Attribute or variable name contains illegal characters */
/* N.B. following must match value in ncx.h */

/** Math result not representable.

One or more of the values are out of the range of values representable
by the desired type. */
#define NC_ERANGE       (-60)
#define NC_ENOMEM       (-61)      /**< Memory allocation (malloc) failure */
#define NC_EVARSIZE     (-62)      /**< One or more variable sizes violate format constraints */
#define NC_EDIMSIZE     (-63)      /**< Invalid dimension size */
#define NC_ETRUNC       (-64)      /**< File likely truncated or possibly corrupted */
#define NC_EAXISTYPE    (-65)      /**< Unknown axis type. */

/* Following errors are added for DAP */
#define NC_EDAP         (-66)      /**< Generic DAP error */
#define NC_ECURL        (-67)      /**< Generic libcurl error */
#define NC_EIO          (-68)      /**< Generic IO error */
#define NC_ENODATA      (-69)      /**< Attempt to access variable with no data */
#define NC_EDAPSVC      (-70)      /**< DAP server error */
#define NC_EDAS         (-71)      /**< Malformed or inaccessible DAS */
#define NC_EDDS         (-72)      /**< Malformed or inaccessible DDS */
#define NC_EDMR         NC_EDDS    /**< Dap4 alias */
#define NC_EDATADDS     (-73)      /**< Malformed or inaccessible DATADDS */
#define NC_EDATADAP     NC_EDATADDS    /**< Dap4 alias */
#define NC_EDAPURL      (-74)      /**< Malformed DAP URL */
#define NC_EDAPCONSTRAINT (-75)    /**< Malformed DAP Constraint*/
#define NC_ETRANSLATION (-76)      /**< Untranslatable construct */
#define NC_EACCESS      (-77)      /**< Access Failure */
#define NC_EAUTH        (-78)      /**< Authorization Failure */

/* Misc. additional errors */
#define NC_ENOTFOUND     (-90)      /**< No such file */
#define NC_ECANTREMOVE   (-91)      /**< Can't remove file */
#define NC_EINTERNAL     (-92)      /**< NetCDF Library Internal Error */
#define NC_EPNETCDF      (-93)      /**< Error at PnetCDF layer */

/* The following was added in support of netcdf-4. Make all netcdf-4
   error codes < -100 so that errors can be added to netcdf-3 if
   needed. */
#define NC4_FIRST_ERROR  (-100)    /**< @internal All HDF5 errors < this. */
#define NC_EHDFERR       (-101)    /**< Error at HDF5 layer. */
#define NC_ECANTREAD     (-102)    /**< Can't read. */
#define NC_ECANTWRITE    (-103)    /**< Can't write. */
#define NC_ECANTCREATE   (-104)    /**< Can't create. */
#define NC_EFILEMETA     (-105)    /**< Problem with file metadata. */
#define NC_EDIMMETA      (-106)    /**< Problem with dimension metadata. */
#define NC_EATTMETA      (-107)    /**< Problem with attribute metadata. */
#define NC_EVARMETA      (-108)    /**< Problem with variable metadata. */
#define NC_ENOCOMPOUND   (-109)    /**< Not a compound type. */
#define NC_EATTEXISTS    (-110)    /**< Attribute already exists. */
#define NC_ENOTNC4       (-111)    /**< Attempting netcdf-4 operation on netcdf-3 file. */
#define NC_ESTRICTNC3    (-112)    /**< Attempting netcdf-4 operation on strict nc3 netcdf-4 file. */
#define NC_ENOTNC3       (-113)    /**< Attempting netcdf-3 operation on netcdf-4 file. */
#define NC_ENOPAR        (-114)    /**< Parallel operation on file opened for non-parallel access. */
#define NC_EPARINIT      (-115)    /**< Error initializing for parallel access. */
#define NC_EBADGRPID     (-116)    /**< Bad group ID. */
#define NC_EBADTYPID     (-117)    /**< Bad type ID. */
#define NC_ETYPDEFINED   (-118)    /**< Type has already been defined and may not be edited. */
#define NC_EBADFIELD     (-119)    /**< Bad field ID. */
#define NC_EBADCLASS     (-120)    /**< Bad class. */
#define NC_EMAPTYPE      (-121)    /**< Mapped access for atomic types only. */
#define NC_ELATEFILL     (-122)    /**< Attempt to define fill value when data already exists. */
#define NC_ELATEDEF      (-123)    /**< Attempt to define var properties, like deflate, after enddef. */
#define NC_EDIMSCALE     (-124)    /**< Problem with HDF5 dimscales. */
#define NC_ENOGRP        (-125)    /**< No group found. */
#define NC_ESTORAGE      (-126)    /**< Can't specify both contiguous and chunking. */
#define NC_EBADCHUNK     (-127)    /**< Bad chunksize. */
#define NC_ENOTBUILT     (-128)    /**< Attempt to use feature that was not turned on when netCDF was built. */
#define NC_EDISKLESS     (-129)    /**< Error in using diskless  access. */
#define NC_ECANTEXTEND   (-130)    /**< Attempt to extend dataset during ind. I/O operation. */
#define NC_EMPI          (-131)    /**< MPI operation failed. */

#define NC_EFILTER       (-132)    /**< Filter operation failed. */
#define NC_ERCFILE       (-133)    /**< RC file failure */
#define NC_ENULLPAD      (-134)    /**< Header Bytes not Null-Byte padded */
#define NC_EINMEMORY     (-135)    /**< In-memory file error */
#define NC_ENOFILTER     (-136)    /**< Filter not defined on variable. */
#define NC_ENCZARR       (-137)    /**< Error at NCZarr layer. */
#define NC_ES3           (-138)    /**< Generic S3 error */
#define NC_EEMPTY        (-139)    /**< Attempt to read empty NCZarr map key */
#define NC_EOBJECT       (-140)    /**< Some object exists when it should not */
#define NC_ENOOBJECT     (-141)    /**< Some object not found */
#define NC_EPLUGIN       (-142)    /**< Unclassified failure in accessing a dynamically loaded plugin> */

#define NC4_LAST_ERROR   (-142)    /**< @internal All netCDF errors > this. */

/* Errors for all remote access methods(e.g. DAP and CDMREMOTE)*/
#define NC_EURL         (NC_EDAPURL)   /**< Malformed URL */
#define NC_ECONSTRAINT  (NC_EDAPCONSTRAINT)   /**< Malformed Constraint*/

/** @internal This is used in netCDF-4 files for dimensions without
 * coordinate vars. */
#define DIM_WITHOUT_VARIABLE "This is a netCDF dimension but not a netCDF variable."

/** @internal This is here at the request of the NCO team to support
 * our mistake of having chunksizes be first ints, then
 * size_t. Doh! */
#define NC_HAVE_NEW_CHUNKING_API 1

#endif
/* end of #ifndef _NETCDF_ */

/* Below are constants used in PnetCDF only */

/* invalid nonblocking request ID and zero-length request */
#define NC_REQ_NULL -1

/* For flexible APIs, when argument bufcount is NC_COUNT_IGNORE and buftype is
 * a predefine MPI datatype, the APIs operate as the high-level APIs.
 */
#define NC_COUNT_IGNORE -1

/* indicate to flush all pending non-blocking requests */
#define NC_REQ_ALL     -1
#define NC_GET_REQ_ALL -2
#define NC_PUT_REQ_ALL -3

/* max number of opened files allowed */
#define NC_MAX_NFILES	1024

#define NC_FORMAT_UNKNOWN -1

/* CDF version 1, NC_32BIT is used internally and never
   actually passed in to ncmpi_create  */
#define NC_32BIT	0x1000000

/* CDF-5 format, (64-bit) supported */
#ifndef NC_64BIT_DATA
#define NC_64BIT_DATA	0x0020
#endif

/* CDF-2 format, with NC_64BIT_OFFSET. */
#ifndef NC_FORMAT_CDF2
#define NC_FORMAT_CDF2  2
#endif

/* CDF-5 format, with NC_64BIT_DATA. */
#ifndef NC_FORMAT_CDF5
#define NC_FORMAT_CDF5  5
#endif

#define NC_BP        0x10000  /**< Use ADIOS BP format. */
#define NC_FORMAT_BP 6

#ifndef NC_ENULLPAD
#define NC_ENULLPAD      (-134)    /**< Header Bytes not Null-Byte padded */
#endif

/* PnetCDF Error Codes: */
#define NC_ESMALL			(-201) /**< size of MPI_Offset too small for format */
#define NC_ENOTINDEP			(-202) /**< Operation not allowed in collective data mode */
#define NC_EINDEP			(-203) /**< Operation not allowed in independent data mode */
#define NC_EFILE			(-204) /**< Unknown error in file operation */
#define NC_EREAD			(-205) /**< Unknown error in reading file */
#define NC_EWRITE			(-206) /**< Unknown error in writing to file */
#define NC_EOFILE			(-207) /**< file open/creation failed */
#define NC_EMULTITYPES			(-208) /**< Multiple etypes used in MPI datatype */
#define NC_EIOMISMATCH			(-209) /**< Input/Output data amount mismatch */
#define NC_ENEGATIVECNT			(-210) /**< Negative count is specified */
#define NC_EUNSPTETYPE			(-211) /**< Unsupported etype in memory MPI datatype */
#define NC_EINVAL_REQUEST		(-212) /**< invalid nonblocking request ID */
#define NC_EAINT_TOO_SMALL		(-213) /**< MPI_Aint not large enough to hold requested value */
#define NC_ENOTSUPPORT			(-214) /**< feature is not yet supported */
#define NC_ENULLBUF			(-215) /**< trying to attach a NULL buffer */
#define NC_EPREVATTACHBUF		(-216) /**< previous attached buffer is found */
#define NC_ENULLABUF			(-217) /**< no attached buffer is found */
#define NC_EPENDINGBPUT			(-218) /**< pending bput is found, cannot detach buffer */
#define NC_EINSUFFBUF			(-219) /**< attached buffer is too small */
#define NC_ENOENT			(-220) /**< File does not exist */
#define NC_EINTOVERFLOW			(-221) /**< Overflow when type cast to 4-byte integer */
#define NC_ENOTENABLED			(-222) /**< feature is not enabled */
#define NC_EBAD_FILE			(-223) /**< Invalid file name (e.g., path name too long) */
#define NC_ENO_SPACE			(-224) /**< Not enough space */
#define NC_EQUOTA			(-225) /**< Quota exceeded */
#define NC_ENULLSTART			(-226) /**< argument start is a NULL pointer */
#define NC_ENULLCOUNT			(-227) /**< argument count is a NULL pointer */
#define NC_EINVAL_CMODE			(-228) /**< Invalid file create mode */
#define NC_ETYPESIZE			(-229) /**< MPI derived data type size error (bigger than the variable size) */
#define NC_ETYPE_MISMATCH		(-230) /**< element type of the MPI derived data type mismatches the variable type */
#define NC_ETYPESIZE_MISMATCH		(-231) /**< file type size mismatches buffer type size */
#define NC_ESTRICTCDF2			(-232) /**< Attempting CDF-5 operation on CDF-2 file */
#define NC_ENOTRECVAR			(-233) /**< Attempting operation only for record variables */
#define NC_ENOTFILL			(-234) /**< Attempting to fill a variable when its fill mode is off */
#define NC_EINVAL_OMODE			(-235) /**< Invalid file open mode */
#define NC_EPENDING			(-236) /**< Pending nonblocking request is found at file close */
#define NC_EMAX_REQ			(-237) /**< Size of I/O request exceeds INT_MAX */
#define NC_EBADLOG			(-238) /**< Unrecognized log file format */
#define NC_EFLUSHED			(-239) /**< Nonblocking request has already been flushed. It is too late to cancel */
#define NC_EADIOS			(-240) /**< unknown ADIOS error */
/* add new error here */

/* header inconsistency errors start from -250 */
#define NC_EMULTIDEFINE			(-250) /**< NC definitions inconsistent among processes */
#define NC_EMULTIDEFINE_OMODE		(-251) /**< inconsistent file open modes among processes */
#define NC_EMULTIDEFINE_DIM_NUM		(-252) /**< inconsistent number of dimensions */
#define NC_EMULTIDEFINE_DIM_SIZE	(-253) /**< inconsistent size of dimension */
#define NC_EMULTIDEFINE_DIM_NAME	(-254) /**< inconsistent dimension names */
#define NC_EMULTIDEFINE_VAR_NUM		(-255) /**< inconsistent number of variables */
#define NC_EMULTIDEFINE_VAR_NAME	(-256) /**< inconsistent variable name */
#define NC_EMULTIDEFINE_VAR_NDIMS	(-257) /**< inconsistent variable's number of dimensions */
#define NC_EMULTIDEFINE_VAR_DIMIDS	(-258) /**< inconsistent variable's dimension IDs */
#define NC_EMULTIDEFINE_VAR_TYPE	(-259) /**< inconsistent variable's data type */
#define NC_EMULTIDEFINE_VAR_LEN		(-260) /**< inconsistent variable's size */
#define NC_EMULTIDEFINE_NUMRECS		(-261) /**< inconsistent number of records */
#define NC_EMULTIDEFINE_VAR_BEGIN	(-262) /**< inconsistent variable file begin offset (internal use) */
#define NC_EMULTIDEFINE_ATTR_NUM	(-263) /**< inconsistent number of attributes */
#define NC_EMULTIDEFINE_ATTR_SIZE	(-264) /**< inconsistent memory space used by attribute (internal use) */
#define NC_EMULTIDEFINE_ATTR_NAME	(-265) /**< inconsistent attribute name */
#define NC_EMULTIDEFINE_ATTR_TYPE	(-266) /**< inconsistent attribute type */
#define NC_EMULTIDEFINE_ATTR_LEN	(-267) /**< inconsistent attribute length */
#define NC_EMULTIDEFINE_ATTR_VAL	(-268) /**< inconsistent attribute value */
#define NC_EMULTIDEFINE_FNC_ARGS	(-269) /**< inconsistent function arguments used in collective API */
#define NC_EMULTIDEFINE_FILL_MODE	(-270) /**< inconsistent dataset fill mode */
#define NC_EMULTIDEFINE_VAR_FILL_MODE	(-271) /**< inconsistent variable fill mode */
#define NC_EMULTIDEFINE_VAR_FILL_VALUE	(-272) /**< inconsistent variable fill value */
#define NC_EMULTIDEFINE_CMODE		(-273) /**< inconsistent file create modes among processes */

#define NC_EMULTIDEFINE_FIRST		NC_EMULTIDEFINE
#define NC_EMULTIDEFINE_LAST		NC_EMULTIDEFINE_CMODE

/* backward compatible with PnetCDF 1.3.1 and earlier */
#define NC_ECMODE			NC_EMULTIDEFINE_OMODE
#define NC_EDIMS_NELEMS_MULTIDEFINE	NC_EMULTIDEFINE_DIM_NUM
#define NC_EDIMS_SIZE_MULTIDEFINE	NC_EMULTIDEFINE_DIM_SIZE
#define NC_EDIMS_NAME_MULTIDEFINE	NC_EMULTIDEFINE_DIM_NAME
#define NC_EVARS_NELEMS_MULTIDEFINE	NC_EMULTIDEFINE_VAR_NUM
#define NC_EVARS_NAME_MULTIDEFINE	NC_EMULTIDEFINE_VAR_NAME
#define NC_EVARS_NDIMS_MULTIDEFINE	NC_EMULTIDEFINE_VAR_NDIMS
#define NC_EVARS_DIMIDS_MULTIDEFINE	NC_EMULTIDEFINE_VAR_DIMIDS
#define NC_EVARS_TYPE_MULTIDEFINE	NC_EMULTIDEFINE_VAR_TYPE
#define NC_EVARS_LEN_MULTIDEFINE	NC_EMULTIDEFINE_VAR_LEN
#define NC_ENUMRECS_MULTIDEFINE		NC_EMULTIDEFINE_NUMRECS
#define NC_EVARS_BEGIN_MULTIDEFINE	NC_EMULTIDEFINE_VAR_BEGIN


/*
 * The Interface
 */

/* Begin Prototypes */

extern const char*
ncmpi_strerror(int err);

extern const char*
ncmpi_strerrno(int err);

/* Begin File Functions */

extern int
ncmpi_create(MPI_Comm comm, const char *path, int cmode, MPI_Info info,
             int *ncidp);

extern int
ncmpi_open(MPI_Comm comm, const char *path, int omode, MPI_Info info,
           int *ncidp);

extern int
ncmpi_inq_file_info(int ncid, MPI_Info *info_used);

extern int
ncmpi_get_file_info(int ncid, MPI_Info *info_used); /* deprecated */

extern int
ncmpi_delete(const char *filename, MPI_Info info);

extern int
ncmpi_enddef(int ncid);

extern int
ncmpi__enddef(int ncid, MPI_Offset h_minfree, MPI_Offset v_align,
              MPI_Offset v_minfree, MPI_Offset r_align);

extern int
ncmpi_redef(int ncid);

extern int
ncmpi_set_default_format(int format, int *old_formatp);

extern int
ncmpi_inq_default_format(int *formatp);

extern int
ncmpi_sync(int ncid);

extern int
ncmpi_flush(int ncid);

extern int
ncmpi_sync_numrecs(int ncid);

extern int
ncmpi_abort(int ncid);

extern int
ncmpi_begin_indep_data(int ncid);

extern int
ncmpi_end_indep_data(int ncid);

extern int
ncmpi_close(int ncid);

extern int
ncmpi_set_fill(int ncid, int fillmode, int *old_modep);

extern int
ncmpi_def_var_fill(int ncid, int varid, int no_fill, const void *fill_value);

extern int
ncmpi_fill_var_rec(int ncid, int varid, MPI_Offset recno);

/* End File Functions */

/* Begin Define Mode Functions */

extern int
ncmpi_def_dim(int ncid, const char *name, MPI_Offset len, int *idp);

extern int
ncmpi_def_var(int ncid, const char *name, nc_type xtype, int ndims,
              const int *dimidsp, int *varidp);

extern int
ncmpi_rename_dim(int ncid, int dimid, const char *name);

extern int
ncmpi_rename_var(int ncid, int varid, const char *name);

/* End Define Mode Functions */

/* Begin Inquiry Functions */

const char* ncmpi_inq_libvers(void);

extern int
ncmpi_inq(int ncid, int *ndimsp, int *nvarsp, int *ngattsp, int *unlimdimidp);

extern int
ncmpi_inq_format(int ncid, int *formatp);

extern int
ncmpi_inq_file_format(const char *filename, int *formatp);

extern int
ncmpi_inq_version(int ncid, int *NC_mode);

extern int
ncmpi_inq_striping(int ncid, int *striping_size, int *striping_count);

extern int
ncmpi_inq_ndims(int ncid, int *ndimsp);

extern int
ncmpi_inq_nvars(int ncid, int *nvarsp);

extern int
ncmpi_inq_num_rec_vars(int ncid, int *nvarsp);

extern int
ncmpi_inq_num_fix_vars(int ncid, int *nvarsp);

extern int
ncmpi_inq_natts(int ncid, int *ngattsp);

extern int
ncmpi_inq_unlimdim(int ncid, int *unlimdimidp);

extern int
ncmpi_inq_dimid(int ncid, const char *name, int *idp);

extern int
ncmpi_inq_dim(int ncid, int dimid, char *name, MPI_Offset *lenp);

extern int
ncmpi_inq_dimname(int ncid, int dimid, char *name);

extern int
ncmpi_inq_dimlen(int ncid, int dimid, MPI_Offset *lenp);

extern int
ncmpi_inq_var(int ncid, int varid, char *name, nc_type *xtypep, int *ndimsp,
              int *dimidsp, int *nattsp);

extern int
ncmpi_inq_varid(int ncid, const char *name, int *varidp);

extern int
ncmpi_inq_varname(int ncid, int varid, char *name);

extern int
ncmpi_inq_vartype(int ncid, int varid, nc_type *xtypep);

extern int
ncmpi_inq_varndims(int ncid, int varid, int *ndimsp);

extern int
ncmpi_inq_vardimid(int ncid, int varid, int *dimidsp);

extern int
ncmpi_inq_varnatts(int ncid, int varid, int *nattsp);

extern int
ncmpi_inq_varoffset(int ncid, int varid, MPI_Offset *offset);

extern int
ncmpi_inq_put_size(int ncid, MPI_Offset *size);

extern int
ncmpi_inq_get_size(int ncid, MPI_Offset *size);

extern int
ncmpi_inq_header_size(int ncid, MPI_Offset *size);

extern int
ncmpi_inq_header_extent(int ncid, MPI_Offset *extent);

extern int
ncmpi_inq_malloc_size(MPI_Offset *size);

extern int
ncmpi_inq_malloc_max_size(MPI_Offset *size);

extern int
ncmpi_inq_malloc_list(void);

extern int
ncmpi_inq_files_opened(int *num, int *ncids);

extern int
ncmpi_inq_recsize(int ncid, MPI_Offset *recsize);

extern int
ncmpi_inq_var_fill(int ncid, int varid, int *no_fill, void *fill_value);

extern int
ncmpi_inq_path(int ncid, int *pathlen, char *path);

/* End Inquiry Functions */

/* Begin _att */

extern int
ncmpi_inq_att(int ncid, int varid, const char *name, nc_type *xtypep,
              MPI_Offset *lenp);

extern int
ncmpi_inq_attid(int ncid, int varid, const char *name, int *idp);

extern int
ncmpi_inq_atttype(int ncid, int varid, const char *name, nc_type *xtypep);

extern int
ncmpi_inq_attlen(int ncid, int varid, const char *name, MPI_Offset *lenp);

extern int
ncmpi_inq_attname(int ncid, int varid, int attnum, char *name);

extern int
ncmpi_copy_att(int ncid_in, int varid_in, const char *name, int ncid_out,
               int varid_out);

extern int
ncmpi_rename_att(int ncid, int varid, const char *name, const char *newname);

extern int
ncmpi_del_att(int ncid, int varid, const char *name);

extern int
ncmpi_put_att(int ncid, int varid, const char *name, nc_type xtype,
              MPI_Offset nelems, const void *value);

extern int
ncmpi_put_att_text(int ncid, int varid, const char *name, MPI_Offset len,
              const char *op);

extern int
ncmpi_put_att_schar(int ncid, int varid, const char *name, nc_type xtype,
              MPI_Offset len, const signed char *op);

extern int
ncmpi_put_att_short(int ncid, int varid, const char *name, nc_type xtype,
              MPI_Offset len, const short *op);

extern int
ncmpi_put_att_int(int ncid, int varid, const char *name, nc_type xtype,
              MPI_Offset len, const int *op);

extern int
ncmpi_put_att_float(int ncid, int varid, const char *name, nc_type xtype,
              MPI_Offset len, const float *op);

extern int
ncmpi_put_att_double(int ncid, int varid, const char *name, nc_type xtype,
              MPI_Offset len, const double *op);

extern int
ncmpi_put_att_longlong(int ncid, int varid, const char *name, nc_type xtype,
              MPI_Offset len, const long long *op);

extern int
ncmpi_get_att(int ncid, int varid, const char *name, void *value);

extern int
ncmpi_get_att_text(int ncid, int varid, const char *name, char *ip);

extern int
ncmpi_get_att_schar(int ncid, int varid, const char *name, signed char *ip);

extern int
ncmpi_get_att_short(int ncid, int varid, const char *name, short *ip);

extern int
ncmpi_get_att_int(int ncid, int varid, const char *name, int *ip);

extern int
ncmpi_get_att_float(int ncid, int varid, const char *name, float *ip);

extern int
ncmpi_get_att_double(int ncid, int varid, const char *name, double *ip);

extern int
ncmpi_get_att_longlong(int ncid, int varid, const char *name, long long *ip);

/* Begin Skip Prototypes for Fortran binding */
/* skip types: uchar, ubyte, ushort, uint, long, ulonglong string */

extern int
ncmpi_put_att_uchar(int ncid, int varid, const char *name, nc_type xtype,
              MPI_Offset len, const unsigned char *op);

extern int
ncmpi_put_att_ubyte(int ncid, int varid, const char *name, nc_type xtype,
              MPI_Offset len, const unsigned char *op);

extern int
ncmpi_put_att_ushort(int ncid, int varid, const char *name, nc_type xtype,
              MPI_Offset len, const unsigned short *op);

extern int
ncmpi_put_att_uint(int ncid, int varid, const char *name, nc_type xtype,
              MPI_Offset len, const unsigned int *op);

extern int
ncmpi_put_att_long(int ncid, int varid, const char *name, nc_type xtype,
              MPI_Offset len, const long *op);

extern int
ncmpi_put_att_ulonglong(int ncid, int varid, const char *name, nc_type xtype,
              MPI_Offset len, const unsigned long long *op);

extern int
ncmpi_get_att_uchar(int ncid, int varid, const char *name, unsigned char *ip);

extern int
ncmpi_get_att_ubyte(int ncid, int varid, const char *name, unsigned char *ip);

extern int
ncmpi_get_att_ushort(int ncid, int varid, const char *name, unsigned short *ip);

extern int
ncmpi_get_att_uint(int ncid, int varid, const char *name, unsigned int *ip);

extern int
ncmpi_get_att_long(int ncid, int varid, const char *name, long *ip);

extern int
ncmpi_get_att_ulonglong(int ncid, int varid, const char *name,
              unsigned long long *ip);

/* End Skip Prototypes for Fortran binding */

/* End _att */

/* Begin {put,get}_var1 */

extern int
ncmpi_put_var1(int ncid, int varid, const MPI_Offset *start,
               const void *op, MPI_Offset bufcount, MPI_Datatype buftype);
extern int
ncmpi_put_var1_all(int ncid, int varid, const MPI_Offset *start,
               const void *op, MPI_Offset bufcount, MPI_Datatype buftype);

extern int
ncmpi_put_var1_text(int ncid, int varid, const MPI_Offset *start,
               const char *op);
extern int
ncmpi_put_var1_text_all(int ncid, int varid, const MPI_Offset *start,
               const char *op);

extern int
ncmpi_put_var1_schar(int ncid, int varid, const MPI_Offset *start,
               const signed char *op);
extern int
ncmpi_put_var1_schar_all(int ncid, int varid, const MPI_Offset *start,
               const signed char *op);

extern int
ncmpi_put_var1_short(int ncid, int varid, const MPI_Offset *start,
               const short *op);
extern int
ncmpi_put_var1_short_all(int ncid, int varid, const MPI_Offset *start,
               const short *op);

extern int
ncmpi_put_var1_int(int ncid, int varid, const MPI_Offset *start,
               const int *op);
extern int
ncmpi_put_var1_int_all(int ncid, int varid, const MPI_Offset *start,
               const int *op);

extern int
ncmpi_put_var1_float(int ncid, int varid, const MPI_Offset *start,
               const float *op);
extern int
ncmpi_put_var1_float_all(int ncid, int varid, const MPI_Offset *start,
               const float *op);

extern int
ncmpi_put_var1_double(int ncid, int varid, const MPI_Offset *start,
               const double *op);
extern int
ncmpi_put_var1_double_all(int ncid, int varid, const MPI_Offset *start,
               const double *op);

extern int
ncmpi_put_var1_longlong(int ncid, int varid, const MPI_Offset *start,
               const long long *op);
extern int
ncmpi_put_var1_longlong_all(int ncid, int varid, const MPI_Offset *start,
               const long long *op);

extern int
ncmpi_get_var1(int ncid, int varid, const MPI_Offset *start,
               void *ip, MPI_Offset bufcount, MPI_Datatype buftype);
extern int
ncmpi_get_var1_all(int ncid, int varid, const MPI_Offset *start,
               void *ip, MPI_Offset bufcount, MPI_Datatype buftype);

extern int
ncmpi_get_var1_text(int ncid, int varid, const MPI_Offset *start,
               char *ip);
extern int
ncmpi_get_var1_text_all(int ncid, int varid, const MPI_Offset *start,
               char *ip);

extern int
ncmpi_get_var1_schar(int ncid, int varid, const MPI_Offset *start,
               signed char *ip);
extern int
ncmpi_get_var1_schar_all(int ncid, int varid, const MPI_Offset *start,
               signed char *ip);

extern int
ncmpi_get_var1_short(int ncid, int varid, const MPI_Offset *start,
               short *ip);
extern int
ncmpi_get_var1_short_all(int ncid, int varid, const MPI_Offset *start,
               short *ip);

extern int
ncmpi_get_var1_int(int ncid, int varid, const MPI_Offset *start,
               int *ip);
extern int
ncmpi_get_var1_int_all(int ncid, int varid, const MPI_Offset *start,
               int *ip);

extern int
ncmpi_get_var1_float(int ncid, int varid, const MPI_Offset *start,
               float *ip);
extern int
ncmpi_get_var1_float_all(int ncid, int varid, const MPI_Offset *start,
               float *ip);

extern int
ncmpi_get_var1_double(int ncid, int varid, const MPI_Offset *start,
               double *ip);
extern int
ncmpi_get_var1_double_all(int ncid, int varid, const MPI_Offset *start,
               double *ip);

extern int
ncmpi_get_var1_longlong(int ncid, int varid, const MPI_Offset *start,
               long long *ip);
extern int
ncmpi_get_var1_longlong_all(int ncid, int varid, const MPI_Offset *start,
               long long *ip);

/* Begin Skip Prototypes for Fortran binding */
/* skip types: uchar, ubyte, ushort, uint, long, ulonglong string */

extern int
ncmpi_put_var1_uchar(int ncid, int varid, const MPI_Offset *start,
               const unsigned char *op);
extern int
ncmpi_put_var1_uchar_all(int ncid, int varid, const MPI_Offset *start,
               const unsigned char *op);

extern int
ncmpi_put_var1_ushort(int ncid, int varid, const MPI_Offset *start,
               const unsigned short *op);
extern int
ncmpi_put_var1_ushort_all(int ncid, int varid, const MPI_Offset *start,
               const unsigned short *op);

extern int
ncmpi_put_var1_uint(int ncid, int varid, const MPI_Offset *start,
               const unsigned int *op);
extern int
ncmpi_put_var1_uint_all(int ncid, int varid, const MPI_Offset *start,
               const unsigned int *op);

extern int
ncmpi_put_var1_long(int ncid, int varid, const MPI_Offset *start,
               const long *ip);
extern int
ncmpi_put_var1_long_all(int ncid, int varid, const MPI_Offset *start,
               const long *ip);

extern int
ncmpi_put_var1_ulonglong(int ncid, int varid, const MPI_Offset *start,
               const unsigned long long *ip);
extern int
ncmpi_put_var1_ulonglong_all(int ncid, int varid, const MPI_Offset *start,
               const unsigned long long *ip);

extern int
ncmpi_get_var1_uchar(int ncid, int varid, const MPI_Offset *start,
               unsigned char *ip);
extern int
ncmpi_get_var1_uchar_all(int ncid, int varid, const MPI_Offset *start,
               unsigned char *ip);

extern int
ncmpi_get_var1_ushort(int ncid, int varid, const MPI_Offset *start,
               unsigned short *ip);
extern int
ncmpi_get_var1_ushort_all(int ncid, int varid, const MPI_Offset *start,
               unsigned short *ip);

extern int
ncmpi_get_var1_uint(int ncid, int varid, const MPI_Offset *start,
               unsigned int *ip);
extern int
ncmpi_get_var1_uint_all(int ncid, int varid, const MPI_Offset *start,
               unsigned int *ip);

extern int
ncmpi_get_var1_long(int ncid, int varid, const MPI_Offset *start,
               long *ip);
extern int
ncmpi_get_var1_long_all(int ncid, int varid, const MPI_Offset *start,
               long *ip);

extern int
ncmpi_get_var1_ulonglong(int ncid, int varid, const MPI_Offset *start,
               unsigned long long *ip);
extern int
ncmpi_get_var1_ulonglong_all(int ncid, int varid, const MPI_Offset *start,
               unsigned long long *ip);
/* End Skip Prototypes for Fortran binding */

/* End {put,get}_var1 */

/* Begin {put,get}_var */

extern int
ncmpi_put_var(int ncid, int varid, const void *op, MPI_Offset bufcount,
              MPI_Datatype buftype);

extern int
ncmpi_put_var_all(int ncid, int varid, const void *op, MPI_Offset bufcount,
              MPI_Datatype buftype);

extern int
ncmpi_put_var_text(int ncid, int varid, const char *op);
extern int
ncmpi_put_var_text_all(int ncid, int varid, const char *op);

extern int
ncmpi_put_var_schar(int ncid, int varid, const signed char *op);
extern int
ncmpi_put_var_schar_all(int ncid, int varid, const signed char *op);

extern int
ncmpi_put_var_short(int ncid, int varid, const short *op);
extern int
ncmpi_put_var_short_all(int ncid, int varid, const short *op);

extern int
ncmpi_put_var_int(int ncid, int varid, const int *op);
extern int
ncmpi_put_var_int_all(int ncid, int varid, const int *op);

extern int
ncmpi_put_var_float(int ncid, int varid, const float *op);
extern int
ncmpi_put_var_float_all(int ncid, int varid, const float *op);

extern int
ncmpi_put_var_double(int ncid, int varid, const double *op);
extern int
ncmpi_put_var_double_all(int ncid, int varid, const double *op);

extern int
ncmpi_put_var_longlong(int ncid, int varid, const long long *op);
extern int
ncmpi_put_var_longlong_all(int ncid, int varid, const long long *op);

extern int
ncmpi_get_var(int ncid, int varid, void *ip, MPI_Offset bufcount,
              MPI_Datatype buftype);
extern int
ncmpi_get_var_all(int ncid, int varid, void *ip, MPI_Offset bufcount,
              MPI_Datatype buftype);

extern int
ncmpi_get_var_text(int ncid, int varid, char *ip);
extern int
ncmpi_get_var_text_all(int ncid, int varid, char *ip);

extern int
ncmpi_get_var_schar(int ncid, int varid, signed char *ip);
extern int
ncmpi_get_var_schar_all(int ncid, int varid, signed char *ip);

extern int
ncmpi_get_var_short(int ncid, int varid, short *ip);
extern int
ncmpi_get_var_short_all(int ncid, int varid, short *ip);

extern int
ncmpi_get_var_int(int ncid, int varid, int *ip);
extern int
ncmpi_get_var_int_all(int ncid, int varid, int *ip);

extern int
ncmpi_get_var_float(int ncid, int varid, float *ip);
extern int
ncmpi_get_var_float_all(int ncid, int varid, float *ip);

extern int
ncmpi_get_var_double(int ncid, int varid, double *ip);
extern int
ncmpi_get_var_double_all(int ncid, int varid, double *ip);

extern int
ncmpi_get_var_longlong(int ncid, int varid, long long *ip);
extern int
ncmpi_get_var_longlong_all(int ncid, int varid, long long *ip);

/* Begin Skip Prototypes for Fortran binding */
/* skip types: uchar, ubyte, ushort, uint, long, ulonglong string */

extern int
ncmpi_put_var_uchar(int ncid, int varid, const unsigned char *op);
extern int
ncmpi_put_var_uchar_all(int ncid, int varid, const unsigned char *op);

extern int
ncmpi_put_var_ushort(int ncid, int varid, const unsigned short *op);
extern int
ncmpi_put_var_ushort_all(int ncid, int varid, const unsigned short *op);

extern int
ncmpi_put_var_uint(int ncid, int varid, const unsigned int *op);
extern int
ncmpi_put_var_uint_all(int ncid, int varid, const unsigned int *op);

extern int
ncmpi_put_var_long(int ncid, int varid, const long *op);
extern int
ncmpi_put_var_long_all(int ncid, int varid, const long *op);

extern int
ncmpi_put_var_ulonglong(int ncid, int varid, const unsigned long long *op);
extern int
ncmpi_put_var_ulonglong_all(int ncid, int varid, const unsigned long long *op);

extern int
ncmpi_get_var_uchar(int ncid, int varid, unsigned char *ip);
extern int
ncmpi_get_var_uchar_all(int ncid, int varid, unsigned char *ip);

extern int
ncmpi_get_var_ushort(int ncid, int varid, unsigned short *ip);
extern int
ncmpi_get_var_ushort_all(int ncid, int varid, unsigned short *ip);

extern int
ncmpi_get_var_uint(int ncid, int varid, unsigned int *ip);
extern int
ncmpi_get_var_uint_all(int ncid, int varid, unsigned int *ip);

extern int
ncmpi_get_var_long(int ncid, int varid, long *ip);
extern int
ncmpi_get_var_long_all(int ncid, int varid, long *ip);

extern int
ncmpi_get_var_ulonglong(int ncid, int varid, unsigned long long *ip);
extern int
ncmpi_get_var_ulonglong_all(int ncid, int varid, unsigned long long *ip);
/* End Skip Prototypes for Fortran binding */

/* End {put,get}_var */

/* Begin {put,get}_vara */

extern int
ncmpi_put_vara(int ncid, int varid, const MPI_Offset *start,
               const MPI_Offset *count, const void *op,
               MPI_Offset bufcount, MPI_Datatype buftype);
extern int
ncmpi_put_vara_all(int ncid, int varid, const MPI_Offset *start,
               const MPI_Offset *count, const void *op,
               MPI_Offset bufcount, MPI_Datatype buftype);

extern int
ncmpi_put_vara_text(int ncid, int varid, const MPI_Offset *start,
               const MPI_Offset *count, const char *op);
extern int
ncmpi_put_vara_text_all(int ncid, int varid, const MPI_Offset *start,
               const MPI_Offset *count, const char *op);

extern int
ncmpi_put_vara_schar(int ncid, int varid, const MPI_Offset *start,
               const MPI_Offset *count, const signed char *op);
extern int
ncmpi_put_vara_schar_all(int ncid, int varid, const MPI_Offset *start,
               const MPI_Offset *count, const signed char *op);

extern int
ncmpi_put_vara_short(int ncid, int varid, const MPI_Offset *start,
               const MPI_Offset *count, const short *op);
extern int
ncmpi_put_vara_short_all(int ncid, int varid, const MPI_Offset *start,
               const MPI_Offset *count, const short *op);

extern int
ncmpi_put_vara_int(int ncid, int varid, const MPI_Offset *start,
               const MPI_Offset *count, const int *op);
extern int
ncmpi_put_vara_int_all(int ncid, int varid, const MPI_Offset *start,
               const MPI_Offset *count, const int *op);

extern int
ncmpi_put_vara_float(int ncid, int varid, const MPI_Offset *start,
               const MPI_Offset *count, const float *op);

extern int
ncmpi_put_vara_float_all(int ncid, int varid, const MPI_Offset *start,
               const MPI_Offset *count, const float *op);

extern int
ncmpi_put_vara_double(int ncid, int varid, const MPI_Offset *start,
               const MPI_Offset *count, const double *op);
extern int
ncmpi_put_vara_double_all(int ncid, int varid, const MPI_Offset *start,
               const MPI_Offset *count, const double *op);

extern int
ncmpi_put_vara_longlong(int ncid, int varid, const MPI_Offset *start,
               const MPI_Offset *count, const long long *op);
extern int
ncmpi_put_vara_longlong_all(int ncid, int varid, const MPI_Offset *start,
               const MPI_Offset *count, const long long *op);

extern int
ncmpi_get_vara(int ncid, int varid, const MPI_Offset *start,
               const MPI_Offset *count, void *ip, MPI_Offset bufcount,
               MPI_Datatype buftype);
extern int
ncmpi_get_vara_all(int ncid, int varid, const MPI_Offset *start,
               const MPI_Offset *count, void *ip, MPI_Offset bufcount,
               MPI_Datatype buftype);

extern int
ncmpi_get_vara_text(int ncid, int varid, const MPI_Offset *start,
               const MPI_Offset *count, char *ip);
extern int
ncmpi_get_vara_text_all(int ncid, int varid, const MPI_Offset *start,
               const MPI_Offset *count, char *ip);

extern int
ncmpi_get_vara_schar(int ncid, int varid, const MPI_Offset *start,
               const MPI_Offset *count, signed char *ip);
extern int
ncmpi_get_vara_schar_all(int ncid, int varid, const MPI_Offset *start,
               const MPI_Offset *count, signed char *ip);

extern int
ncmpi_get_vara_short(int ncid, int varid, const MPI_Offset *start,
               const MPI_Offset *count, short *ip);
extern int
ncmpi_get_vara_short_all(int ncid, int varid, const MPI_Offset *start,
               const MPI_Offset *count, short *ip);

extern int
ncmpi_get_vara_int(int ncid, int varid, const MPI_Offset *start,
               const MPI_Offset *count, int *ip);
extern int
ncmpi_get_vara_int_all(int ncid, int varid, const MPI_Offset *start,
               const MPI_Offset *count, int *ip);

extern int
ncmpi_get_vara_float(int ncid, int varid, const MPI_Offset *start,
               const MPI_Offset *count, float *ip);
extern int
ncmpi_get_vara_float_all(int ncid, int varid, const MPI_Offset *start,
               const MPI_Offset *count, float *ip);

extern int
ncmpi_get_vara_double(int ncid, int varid, const MPI_Offset *start,
               const MPI_Offset *count, double *ip);
extern int
ncmpi_get_vara_double_all(int ncid, int varid, const MPI_Offset *start,
               const MPI_Offset *count, double *ip);

extern int
ncmpi_get_vara_longlong(int ncid, int varid, const MPI_Offset *start,
               const MPI_Offset *count, long long *ip);
extern int
ncmpi_get_vara_longlong_all(int ncid, int varid, const MPI_Offset *start,
               const MPI_Offset *count, long long *ip);

/* Begin Skip Prototypes for Fortran binding */
/* skip types: uchar, ubyte, ushort, uint, long, ulonglong string */

extern int
ncmpi_put_vara_uchar(int ncid, int varid, const MPI_Offset *start,
               const MPI_Offset *count, const unsigned char *op);
extern int
ncmpi_put_vara_uchar_all(int ncid, int varid, const MPI_Offset *start,
               const MPI_Offset *count, const unsigned char *op);

extern int
ncmpi_put_vara_ushort(int ncid, int varid, const MPI_Offset *start,
               const MPI_Offset *count, const unsigned short *op);
extern int
ncmpi_put_vara_ushort_all(int ncid, int varid, const MPI_Offset *start,
               const MPI_Offset *count, const unsigned short *op);

extern int
ncmpi_put_vara_uint(int ncid, int varid, const MPI_Offset *start,
               const MPI_Offset *count, const unsigned int *op);
extern int
ncmpi_put_vara_uint_all(int ncid, int varid, const MPI_Offset *start,
               const MPI_Offset *count, const unsigned int *op);

extern int
ncmpi_put_vara_long(int ncid, int varid, const MPI_Offset *start,
               const MPI_Offset *count, const long *op);
extern int
ncmpi_put_vara_long_all(int ncid, int varid, const MPI_Offset *start,
               const MPI_Offset *count, const long *op);

extern int
ncmpi_put_vara_ulonglong(int ncid, int varid, const MPI_Offset *start,
               const MPI_Offset *count, const unsigned long long *op);
extern int
ncmpi_put_vara_ulonglong_all(int ncid, int varid, const MPI_Offset *start,
               const MPI_Offset *count, const unsigned long long *op);

extern int
ncmpi_get_vara_uchar(int ncid, int varid, const MPI_Offset *start,
               const MPI_Offset *count, unsigned char *ip);
extern int
ncmpi_get_vara_uchar_all(int ncid, int varid, const MPI_Offset *start,
               const MPI_Offset *count, unsigned char *ip);

extern int
ncmpi_get_vara_ushort(int ncid, int varid, const MPI_Offset *start,
               const MPI_Offset *count, unsigned short *ip);
extern int
ncmpi_get_vara_ushort_all(int ncid, int varid, const MPI_Offset *start,
               const MPI_Offset *count, unsigned short *ip);

extern int
ncmpi_get_vara_uint(int ncid, int varid, const MPI_Offset *start,
               const MPI_Offset *count, unsigned int *ip);
extern int
ncmpi_get_vara_uint_all(int ncid, int varid, const MPI_Offset *start,
               const MPI_Offset *count, unsigned int *ip);

extern int
ncmpi_get_vara_long(int ncid, int varid, const MPI_Offset *start,
               const MPI_Offset *count, long *ip);
extern int
ncmpi_get_vara_long_all(int ncid, int varid, const MPI_Offset *start,
               const MPI_Offset *count, long *ip);

extern int
ncmpi_get_vara_ulonglong(int ncid, int varid, const MPI_Offset *start,
               const MPI_Offset *count, unsigned long long *ip);
extern int
ncmpi_get_vara_ulonglong_all(int ncid, int varid, const MPI_Offset *start,
               const MPI_Offset *count, unsigned long long *ip);

/* End Skip Prototypes for Fortran binding */

/* End {put,get}_vara */

/* Begin {put,get}_vars */

extern int
ncmpi_put_vars(int ncid, int varid, const MPI_Offset *start,
               const MPI_Offset *count, const MPI_Offset *stride,
               const void *op, MPI_Offset bufcount, MPI_Datatype buftype);
extern int
ncmpi_put_vars_all(int ncid, int varid, const MPI_Offset *start,
               const MPI_Offset *count, const MPI_Offset *stride,
               const void *op, MPI_Offset bufcount, MPI_Datatype buftype);

extern int
ncmpi_put_vars_text(int ncid, int varid, const MPI_Offset *start,
               const MPI_Offset *count, const MPI_Offset *stride,
               const char *op);
extern int
ncmpi_put_vars_text_all(int ncid, int varid, const MPI_Offset *start,
               const MPI_Offset *count, const MPI_Offset *stride,
               const char *op);

extern int
ncmpi_put_vars_schar(int ncid, int varid, const MPI_Offset *start,
               const MPI_Offset *count, const MPI_Offset *stride,
               const signed char *op);
extern int
ncmpi_put_vars_schar_all(int ncid, int varid, const MPI_Offset *start,
               const MPI_Offset *count, const MPI_Offset *stride,
               const signed char *op);

extern int
ncmpi_put_vars_short(int ncid, int varid, const MPI_Offset *start,
               const MPI_Offset *count, const MPI_Offset *stride,
               const short *op);
extern int
ncmpi_put_vars_short_all(int ncid, int varid, const MPI_Offset *start,
               const MPI_Offset *count, const MPI_Offset *stride,
               const short *op);

extern int
ncmpi_put_vars_int(int ncid, int varid, const MPI_Offset *start,
               const MPI_Offset *count, const MPI_Offset *stride,
               const int *op);
extern int
ncmpi_put_vars_int_all(int ncid, int varid, const MPI_Offset *start,
               const MPI_Offset *count, const MPI_Offset *stride,
               const int *op);

extern int
ncmpi_put_vars_float(int ncid, int varid, const MPI_Offset *start,
               const MPI_Offset *count, const MPI_Offset *stride,
               const float *op);
extern int
ncmpi_put_vars_float_all(int ncid, int varid, const MPI_Offset *start,
               const MPI_Offset *count, const MPI_Offset *stride,
               const float *op);

extern int
ncmpi_put_vars_double(int ncid, int varid, const MPI_Offset *start,
               const MPI_Offset *count, const MPI_Offset *stride,
               const double *op);
extern int
ncmpi_put_vars_double_all(int ncid, int varid, const MPI_Offset *start,
               const MPI_Offset *count, const MPI_Offset *stride,
               const double *op);

extern int
ncmpi_put_vars_longlong(int ncid, int varid, const MPI_Offset *start,
               const MPI_Offset *count, const MPI_Offset *stride,
               const long long *op);
extern int
ncmpi_put_vars_longlong_all(int ncid, int varid, const MPI_Offset *start,
               const MPI_Offset *count, const MPI_Offset *stride,
               const long long *op);

extern int
ncmpi_get_vars(int ncid, int varid, const MPI_Offset *start,
               const MPI_Offset *count, const MPI_Offset *stride,
               void *ip, MPI_Offset bufcount, MPI_Datatype buftype);
extern int
ncmpi_get_vars_all(int ncid, int varid, const MPI_Offset *start,
               const MPI_Offset *count, const MPI_Offset *stride,
               void *ip, MPI_Offset bufcount, MPI_Datatype buftype);

extern int
ncmpi_get_vars_schar(int ncid, int varid, const MPI_Offset *start,
                   const MPI_Offset *count, const MPI_Offset *stride,
                   signed char *ip);
extern int
ncmpi_get_vars_schar_all(int ncid, int varid, const MPI_Offset *start,
               const MPI_Offset *count, const MPI_Offset *stride,
               signed char *ip);

extern int
ncmpi_get_vars_text(int ncid, int varid, const MPI_Offset *start,
               const MPI_Offset *count, const MPI_Offset *stride, char *ip);
extern int
ncmpi_get_vars_text_all(int ncid, int varid, const MPI_Offset *start,
                   const MPI_Offset *count, const MPI_Offset *stride, char *ip);

extern int
ncmpi_get_vars_short(int ncid, int varid, const MPI_Offset *start,
               const MPI_Offset *count, const MPI_Offset *stride, short *ip);
extern int
ncmpi_get_vars_short_all(int ncid, int varid, const MPI_Offset *start,
               const MPI_Offset *count, const MPI_Offset *stride, short *ip);

extern int
ncmpi_get_vars_int(int ncid, int varid, const MPI_Offset *start,
               const MPI_Offset *count, const MPI_Offset *stride, int *ip);
extern int
ncmpi_get_vars_int_all(int ncid, int varid, const MPI_Offset *start,
               const MPI_Offset *count, const MPI_Offset *stride, int *ip);

extern int
ncmpi_get_vars_float(int ncid, int varid, const MPI_Offset *start,
               const MPI_Offset *count, const MPI_Offset *stride, float *ip);
extern int
ncmpi_get_vars_float_all(int ncid, int varid, const MPI_Offset *start,
               const MPI_Offset *count, const MPI_Offset *stride, float *ip);

extern int
ncmpi_get_vars_double(int ncid, int varid, const MPI_Offset *start,
               const MPI_Offset *count, const MPI_Offset *stride, double *ip);
extern int
ncmpi_get_vars_double_all(int ncid, int varid, const MPI_Offset *start,
               const MPI_Offset *count, const MPI_Offset *stride, double *ip);

extern int
ncmpi_get_vars_longlong(int ncid, int varid, const MPI_Offset *start,
               const MPI_Offset *count, const MPI_Offset *stride,
               long long *ip);
extern int
ncmpi_get_vars_longlong_all(int ncid, int varid, const MPI_Offset *start,
               const MPI_Offset *count, const MPI_Offset *stride,
               long long *ip);

/* Begin Skip Prototypes for Fortran binding */
/* skip types: uchar, ubyte, ushort, uint, long, ulonglong string */

extern int
ncmpi_put_vars_uchar(int ncid, int varid, const MPI_Offset *start,
               const MPI_Offset *count, const MPI_Offset *stride,
               const unsigned char *op);
extern int
ncmpi_put_vars_uchar_all(int ncid, int varid, const MPI_Offset *start,
               const MPI_Offset *count, const MPI_Offset *stride,
               const unsigned char *op);

extern int
ncmpi_put_vars_ushort(int ncid, int varid, const MPI_Offset *start,
               const MPI_Offset *count, const MPI_Offset *stride,
               const unsigned short *op);
extern int
ncmpi_put_vars_ushort_all(int ncid, int varid, const MPI_Offset *start,
               const MPI_Offset *count, const MPI_Offset *stride,
               const unsigned short *op);

extern int
ncmpi_put_vars_uint(int ncid, int varid, const MPI_Offset *start,
               const MPI_Offset *count, const MPI_Offset *stride,
               const unsigned int *op);
extern int
ncmpi_put_vars_uint_all(int ncid, int varid, const MPI_Offset *start,
               const MPI_Offset *count, const MPI_Offset *stride,
               const unsigned int *op);

extern int
ncmpi_put_vars_long(int ncid, int varid, const MPI_Offset *start,
               const MPI_Offset *count, const MPI_Offset *stride,
               const long *op);
extern int
ncmpi_put_vars_long_all(int ncid, int varid, const MPI_Offset *start,
               const MPI_Offset *count, const MPI_Offset *stride,
               const long *op);

extern int
ncmpi_put_vars_ulonglong(int ncid, int varid, const MPI_Offset *start,
               const MPI_Offset *count, const MPI_Offset *stride,
               const unsigned long long *op);
extern int
ncmpi_put_vars_ulonglong_all(int ncid, int varid, const MPI_Offset *start,
               const MPI_Offset *count, const MPI_Offset *stride,
               const unsigned long long *op);

extern int
ncmpi_get_vars_uchar(int ncid, int varid, const MPI_Offset *start,
               const MPI_Offset *count, const MPI_Offset *stride,
               unsigned char *ip);
extern int
ncmpi_get_vars_uchar_all(int ncid, int varid, const MPI_Offset *start,
               const MPI_Offset *count, const MPI_Offset *stride,
               unsigned char *ip);

extern int
ncmpi_get_vars_ushort(int ncid, int varid, const MPI_Offset *start,
               const MPI_Offset *count, const MPI_Offset *stride,
               unsigned short *ip);
extern int
ncmpi_get_vars_ushort_all(int ncid, int varid, const MPI_Offset *start,
               const MPI_Offset *count, const MPI_Offset *stride,
               unsigned short *ip);

extern int
ncmpi_get_vars_uint(int ncid, int varid, const MPI_Offset *start,
               const MPI_Offset *count, const MPI_Offset *stride,
               unsigned int *ip);
extern int
ncmpi_get_vars_uint_all(int ncid, int varid, const MPI_Offset *start,
               const MPI_Offset *count, const MPI_Offset *stride,
               unsigned int *ip);

extern int
ncmpi_get_vars_long(int ncid, int varid, const MPI_Offset *start,
               const MPI_Offset *count, const MPI_Offset *stride,
               long *ip);
extern int
ncmpi_get_vars_long_all(int ncid, int varid, const MPI_Offset *start,
               const MPI_Offset *count, const MPI_Offset *stride,
               long *ip);

extern int
ncmpi_get_vars_ulonglong(int ncid, int varid, const MPI_Offset *start,
               const MPI_Offset *count, const MPI_Offset *stride,
               unsigned long long *ip);
extern int
ncmpi_get_vars_ulonglong_all(int ncid, int varid, const MPI_Offset *start,
               const MPI_Offset *count, const MPI_Offset *stride,
               unsigned long long *ip);

/* End Skip Prototypes for Fortran binding */

/* End {put,get}_vars */

/* Begin {put,get}_varm */

extern int
ncmpi_put_varm(int ncid, int varid, const MPI_Offset *start,
               const MPI_Offset *count, const MPI_Offset *stride,
               const MPI_Offset *imap, const void *op,
               MPI_Offset bufcount, MPI_Datatype buftype);
extern int
ncmpi_put_varm_all(int ncid, int varid, const MPI_Offset *start,
               const MPI_Offset *count, const MPI_Offset *stride,
               const MPI_Offset *imap, const void *op,
               MPI_Offset bufcount, MPI_Datatype buftype);

extern int
ncmpi_put_varm_text(int ncid, int varid, const MPI_Offset *start,
               const MPI_Offset *count, const MPI_Offset *stride,
               const MPI_Offset *imap, const char *op);
extern int
ncmpi_put_varm_text_all(int ncid, int varid, const MPI_Offset *start,
               const MPI_Offset *count, const MPI_Offset *stride,
               const MPI_Offset *imap, const char *op);

extern int
ncmpi_put_varm_schar(int ncid, int varid, const MPI_Offset *start,
               const MPI_Offset *count, const MPI_Offset *stride,
               const MPI_Offset *imap, const signed char *op);
extern int
ncmpi_put_varm_schar_all(int ncid, int varid, const MPI_Offset *start,
               const MPI_Offset *count, const MPI_Offset *stride,
               const MPI_Offset *imap, const signed char *op);

extern int
ncmpi_put_varm_short(int ncid, int varid, const MPI_Offset *start,
               const MPI_Offset *count, const MPI_Offset *stride,
               const MPI_Offset *imap, const short *op);
extern int
ncmpi_put_varm_short_all(int ncid, int varid, const MPI_Offset *start,
               const MPI_Offset *count, const MPI_Offset *stride,
               const MPI_Offset *imap, const short *op);

extern int
ncmpi_put_varm_int(int ncid, int varid, const MPI_Offset *start,
               const MPI_Offset *count, const MPI_Offset *stride,
               const MPI_Offset *imap, const int *op);
extern int
ncmpi_put_varm_int_all(int ncid, int varid, const MPI_Offset *start,
               const MPI_Offset *count, const MPI_Offset *stride,
               const MPI_Offset *imap, const int *op);

extern int
ncmpi_put_varm_float(int ncid, int varid, const MPI_Offset *start,
               const MPI_Offset *count, const MPI_Offset *stride,
               const MPI_Offset *imap, const float *op);
extern int
ncmpi_put_varm_float_all(int ncid, int varid, const MPI_Offset *start,
               const MPI_Offset *count, const MPI_Offset *stride,
               const MPI_Offset *imap, const float *op);

extern int
ncmpi_put_varm_double(int ncid, int varid, const MPI_Offset *start,
               const MPI_Offset *count, const MPI_Offset *stride,
               const MPI_Offset *imap, const double *op);
extern int
ncmpi_put_varm_double_all(int ncid, int varid, const MPI_Offset *start,
               const MPI_Offset *count, const MPI_Offset *stride,
               const MPI_Offset *imap, const double *op);

extern int
ncmpi_put_varm_longlong(int ncid, int varid, const MPI_Offset *start,
               const MPI_Offset *count, const MPI_Offset *stride,
               const MPI_Offset *imap, const long long *op);
extern int
ncmpi_put_varm_longlong_all(int ncid, int varid, const MPI_Offset *start,
               const MPI_Offset *count, const MPI_Offset *stride,
               const MPI_Offset *imap, const long long *op);

extern int
ncmpi_get_varm(int ncid, int varid, const MPI_Offset *start,
               const MPI_Offset *count, const MPI_Offset *stride,
               const MPI_Offset *imap, void *ip, MPI_Offset bufcount,
               MPI_Datatype buftype);
extern int
ncmpi_get_varm_all(int ncid, int varid, const MPI_Offset *start,
               const MPI_Offset *count, const MPI_Offset *stride,
               const MPI_Offset *imap, void *ip, MPI_Offset bufcount,
               MPI_Datatype buftype);

extern int
ncmpi_get_varm_schar(int ncid, int varid, const MPI_Offset *start,
               const MPI_Offset *count, const MPI_Offset *stride,
               const MPI_Offset *imap, signed char *ip);
extern int
ncmpi_get_varm_schar_all(int ncid, int varid, const MPI_Offset *start,
               const MPI_Offset *count, const MPI_Offset *stride,
               const MPI_Offset *imap, signed char *ip);

extern int
ncmpi_get_varm_text(int ncid, int varid, const MPI_Offset *start,
               const MPI_Offset *count, const MPI_Offset *stride,
               const MPI_Offset *imap, char *ip);
extern int
ncmpi_get_varm_text_all(int ncid, int varid, const MPI_Offset *start,
               const MPI_Offset *count, const MPI_Offset *stride,
               const MPI_Offset *imap, char *ip);

extern int
ncmpi_get_varm_short(int ncid, int varid, const MPI_Offset *start,
               const MPI_Offset *count, const MPI_Offset *stride,
               const MPI_Offset *imap, short *ip);
extern int
ncmpi_get_varm_short_all(int ncid, int varid, const MPI_Offset *start,
               const MPI_Offset *count, const MPI_Offset *stride,
               const MPI_Offset *imap, short *ip);

extern int
ncmpi_get_varm_int(int ncid, int varid, const MPI_Offset *start,
               const MPI_Offset *count, const MPI_Offset *stride,
               const MPI_Offset *imap, int *ip);
extern int
ncmpi_get_varm_int_all(int ncid, int varid, const MPI_Offset *start,
               const MPI_Offset *count, const MPI_Offset *stride,
               const MPI_Offset *imap, int *ip);

extern int
ncmpi_get_varm_float(int ncid, int varid, const MPI_Offset *start,
               const MPI_Offset *count, const MPI_Offset *stride,
               const MPI_Offset *imap, float *ip);
extern int
ncmpi_get_varm_float_all(int ncid, int varid, const MPI_Offset *start,
               const MPI_Offset *count, const MPI_Offset *stride,
               const MPI_Offset *imap, float *ip);

extern int
ncmpi_get_varm_double(int ncid, int varid, const MPI_Offset *start,
               const MPI_Offset *count, const MPI_Offset *stride,
               const MPI_Offset *imap, double *ip);
extern int
ncmpi_get_varm_double_all(int ncid, int varid, const MPI_Offset *start,
               const MPI_Offset *count, const MPI_Offset *stride,
               const MPI_Offset *imap, double *ip);

extern int
ncmpi_get_varm_longlong(int ncid, int varid, const MPI_Offset *start,
               const MPI_Offset *count, const MPI_Offset *stride,
               const MPI_Offset *imap, long long *ip);
extern int
ncmpi_get_varm_longlong_all(int ncid, int varid, const MPI_Offset *start,
               const MPI_Offset *count, const MPI_Offset *stride,
               const MPI_Offset *imap, long long *ip);

/* Begin Skip Prototypes for Fortran binding */
/* skip types: uchar, ubyte, ushort, uint, long, ulonglong string */

extern int
ncmpi_put_varm_uchar(int ncid, int varid, const MPI_Offset *start,
               const MPI_Offset *count, const MPI_Offset *stride,
               const MPI_Offset *imap, const unsigned char *op);
extern int
ncmpi_put_varm_uchar_all(int ncid, int varid, const MPI_Offset *start,
               const MPI_Offset *count, const MPI_Offset *stride,
               const MPI_Offset *imap, const unsigned char *op);

extern int
ncmpi_put_varm_ushort(int ncid, int varid, const MPI_Offset *start,
               const MPI_Offset *count, const MPI_Offset *stride,
               const MPI_Offset *imap, const unsigned short *op);
extern int
ncmpi_put_varm_ushort_all(int ncid, int varid, const MPI_Offset *start,
               const MPI_Offset *count, const MPI_Offset *stride,
               const MPI_Offset *imap, const unsigned short *op);

extern int
ncmpi_put_varm_uint(int ncid, int varid, const MPI_Offset *start,
               const MPI_Offset *count, const MPI_Offset *stride,
               const MPI_Offset *imap, const unsigned int *op);
extern int
ncmpi_put_varm_uint_all(int ncid, int varid, const MPI_Offset *start,
               const MPI_Offset *count, const MPI_Offset *stride,
               const MPI_Offset *imap, const unsigned int *op);

extern int
ncmpi_put_varm_long(int ncid, int varid, const MPI_Offset *start,
               const MPI_Offset *count, const MPI_Offset *stride,
               const MPI_Offset *imap, const long *op);
extern int
ncmpi_put_varm_long_all(int ncid, int varid, const MPI_Offset *start,
               const MPI_Offset *count, const MPI_Offset *stride,
               const MPI_Offset *imap, const long *op);

extern int
ncmpi_put_varm_ulonglong(int ncid, int varid, const MPI_Offset *start,
               const MPI_Offset *count, const MPI_Offset *stride,
               const MPI_Offset *imap, const unsigned long long *op);
extern int
ncmpi_put_varm_ulonglong_all(int ncid, int varid, const MPI_Offset *start,
               const MPI_Offset *count, const MPI_Offset *stride,
               const MPI_Offset *imap, const unsigned long long *op);

extern int
ncmpi_get_varm_uchar(int ncid, int varid, const MPI_Offset *start,
               const MPI_Offset *count, const MPI_Offset *stride,
               const MPI_Offset *imap, unsigned char *ip);
extern int
ncmpi_get_varm_uchar_all(int ncid, int varid, const MPI_Offset *start,
               const MPI_Offset *count, const MPI_Offset *stride,
               const MPI_Offset *imap, unsigned char *ip);

extern int
ncmpi_get_varm_ushort(int ncid, int varid, const MPI_Offset *start,
               const MPI_Offset *count, const MPI_Offset *stride,
               const MPI_Offset *imap, unsigned short *ip);
extern int
ncmpi_get_varm_ushort_all(int ncid, int varid, const MPI_Offset *start,
               const MPI_Offset *count, const MPI_Offset *stride,
               const MPI_Offset *imap, unsigned short *ip);

extern int
ncmpi_get_varm_uint(int ncid, int varid, const MPI_Offset *start,
               const MPI_Offset *count, const MPI_Offset *stride,
               const MPI_Offset *imap, unsigned int *ip);
extern int
ncmpi_get_varm_uint_all(int ncid, int varid, const MPI_Offset *start,
               const MPI_Offset *count, const MPI_Offset *stride,
               const MPI_Offset *imap, unsigned int *ip);

extern int
ncmpi_get_varm_long(int ncid, int varid, const MPI_Offset *start,
               const MPI_Offset *count, const MPI_Offset *stride,
               const MPI_Offset *imap, long *ip);
extern int
ncmpi_get_varm_long_all(int ncid, int varid, const MPI_Offset *start,
               const MPI_Offset *count, const MPI_Offset *stride,
               const MPI_Offset *imap, long *ip);

extern int
ncmpi_get_varm_ulonglong(int ncid, int varid, const MPI_Offset *start,
               const MPI_Offset *count, const MPI_Offset *stride,
               const MPI_Offset *imap, unsigned long long *ip);
extern int
ncmpi_get_varm_ulonglong_all(int ncid, int varid, const MPI_Offset *start,
               const MPI_Offset *count, const MPI_Offset *stride,
               const MPI_Offset *imap, unsigned long long *ip);

/* End Skip Prototypes for Fortran binding */

/* End {put,get}_varm */

/* Begin of {put,get}_varn{kind} */

extern int
ncmpi_put_varn(int ncid, int varid, int num, MPI_Offset* const *starts,
               MPI_Offset* const *counts, const void *op,
               MPI_Offset bufcount, MPI_Datatype buftype);
extern int
ncmpi_put_varn_all(int ncid, int varid, int num,
               MPI_Offset* const *starts, MPI_Offset* const *counts,
                const void *op, MPI_Offset bufcount, MPI_Datatype buftype);

extern int
ncmpi_get_varn(int ncid, int varid, int num, MPI_Offset* const *starts,
               MPI_Offset* const *counts,  void *ip, MPI_Offset bufcount,
               MPI_Datatype buftype);
extern int
ncmpi_get_varn_all(int ncid, int varid, int num,
               MPI_Offset* const *starts, MPI_Offset* const *counts,
               void *ip, MPI_Offset bufcount, MPI_Datatype buftype);

extern int
ncmpi_put_varn_text(int ncid, int varid, int num,
               MPI_Offset* const *starts, MPI_Offset* const *counts,
               const char *op);
extern int
ncmpi_put_varn_text_all(int ncid, int varid, int num,
               MPI_Offset* const *starts, MPI_Offset* const *counts,
               const char *op);

extern int
ncmpi_put_varn_schar(int ncid, int varid, int num,
               MPI_Offset* const *starts, MPI_Offset* const *counts,
               const signed char *op);
extern int
ncmpi_put_varn_schar_all(int ncid, int varid, int num,
               MPI_Offset* const *starts, MPI_Offset* const *counts,
               const signed char *op);

extern int
ncmpi_put_varn_short(int ncid, int varid, int num,
               MPI_Offset* const *starts, MPI_Offset* const *counts,
               const short *op);
extern int
ncmpi_put_varn_short_all(int ncid, int varid, int num,
               MPI_Offset* const *starts, MPI_Offset* const *counts,
               const short *op);

extern int
ncmpi_put_varn_int(int ncid, int varid, int num,
               MPI_Offset* const *starts, MPI_Offset* const *counts,
               const int *op);
extern int
ncmpi_put_varn_int_all(int ncid, int varid, int num,
               MPI_Offset* const *starts, MPI_Offset* const *counts,
               const int *op);

extern int
ncmpi_put_varn_float(int ncid, int varid, int num,
               MPI_Offset* const *starts, MPI_Offset* const *counts,
               const float *op);
extern int
ncmpi_put_varn_float_all(int ncid, int varid, int num,
               MPI_Offset* const *starts, MPI_Offset* const *counts,
               const float *op);

extern int
ncmpi_put_varn_double(int ncid, int varid, int num,
               MPI_Offset* const *starts, MPI_Offset* const *counts,
               const double *op);
extern int
ncmpi_put_varn_double_all(int ncid, int varid, int num,
               MPI_Offset* const *starts, MPI_Offset* const *counts,
               const double *op);

extern int
ncmpi_put_varn_longlong(int ncid, int varid, int num,
               MPI_Offset* const *starts, MPI_Offset* const *counts,
               const long long *op);
extern int
ncmpi_put_varn_longlong_all(int ncid, int varid, int num,
               MPI_Offset* const *starts, MPI_Offset* const *counts,
               const long long *op);

/* Begin Skip Prototypes for Fortran binding */
/* skip types: uchar, ubyte, ushort, uint, long, ulonglong string */

extern int
ncmpi_put_varn_uchar(int ncid, int varid, int num,
               MPI_Offset* const *starts, MPI_Offset* const *counts,
               const unsigned char *op);
extern int
ncmpi_put_varn_uchar_all(int ncid, int varid, int num,
               MPI_Offset* const *starts, MPI_Offset* const *counts,
               const unsigned char *op);

extern int
ncmpi_put_varn_ushort(int ncid, int varid, int num,
               MPI_Offset* const *starts, MPI_Offset* const *counts,
               const unsigned short *op);
extern int
ncmpi_put_varn_ushort_all(int ncid, int varid, int num,
               MPI_Offset* const *starts, MPI_Offset* const *counts,
               const unsigned short *op);

extern int
ncmpi_put_varn_uint(int ncid, int varid, int num,
               MPI_Offset* const *starts, MPI_Offset* const *counts,
               const unsigned int *op);
extern int
ncmpi_put_varn_uint_all(int ncid, int varid, int num,
               MPI_Offset* const *starts, MPI_Offset* const *counts,
               const unsigned int *op);

extern int
ncmpi_put_varn_long(int ncid, int varid, int num,
               MPI_Offset* const *starts, MPI_Offset* const *counts,
               const long *op);
extern int
ncmpi_put_varn_long_all(int ncid, int varid, int num,
               MPI_Offset* const *starts, MPI_Offset* const *counts,
               const long *op);

extern int
ncmpi_put_varn_ulonglong(int ncid, int varid, int num,
               MPI_Offset* const *starts, MPI_Offset* const *counts,
               const unsigned long long *op);
extern int
ncmpi_put_varn_ulonglong_all(int ncid, int varid, int num,
               MPI_Offset* const *starts, MPI_Offset* const *counts,
               const unsigned long long *op);

/* End Skip Prototypes for Fortran binding */

extern int
ncmpi_get_varn_text(int ncid, int varid, int num,
               MPI_Offset* const *starts, MPI_Offset* const *counts,
               char *ip);
extern int
ncmpi_get_varn_text_all(int ncid, int varid, int num,
               MPI_Offset* const *starts, MPI_Offset* const *counts,
               char *ip);

extern int
ncmpi_get_varn_schar(int ncid, int varid, int num,
               MPI_Offset* const *starts, MPI_Offset* const *counts,
               signed char *ip);
extern int
ncmpi_get_varn_schar_all(int ncid, int varid, int num,
               MPI_Offset* const *starts, MPI_Offset* const *counts,
               signed char *ip);

extern int
ncmpi_get_varn_short(int ncid, int varid, int num,
               MPI_Offset* const *starts, MPI_Offset* const *counts,
               short *ip);
extern int
ncmpi_get_varn_short_all(int ncid, int varid, int num,
               MPI_Offset* const *starts, MPI_Offset* const *counts,
               short *ip);

extern int
ncmpi_get_varn_int(int ncid, int varid, int num,
               MPI_Offset* const *starts, MPI_Offset* const *counts,
               int *ip);
extern int
ncmpi_get_varn_int_all(int ncid, int varid, int num,
               MPI_Offset* const *starts, MPI_Offset* const *counts,
               int *ip);

extern int
ncmpi_get_varn_float(int ncid, int varid, int num,
               MPI_Offset* const *starts, MPI_Offset* const *counts,
               float *ip);
extern int
ncmpi_get_varn_float_all(int ncid, int varid, int num,
               MPI_Offset* const *starts, MPI_Offset* const *counts,
               float *ip);

extern int
ncmpi_get_varn_double(int ncid, int varid, int num,
               MPI_Offset* const *starts, MPI_Offset* const *counts,
               double *ip);
extern int
ncmpi_get_varn_double_all(int ncid, int varid, int num,
               MPI_Offset* const *starts, MPI_Offset* const *counts,
               double *ip);

extern int
ncmpi_get_varn_longlong(int ncid, int varid, int num,
               MPI_Offset* const *starts, MPI_Offset* const *counts,
               long long *ip);
extern int
ncmpi_get_varn_longlong_all(int ncid, int varid, int num,
               MPI_Offset* const *starts, MPI_Offset* const *counts,
               long long *ip);

/* Begin Skip Prototypes for Fortran binding */
/* skip types: uchar, ubyte, ushort, uint, long, ulonglong string */

extern int
ncmpi_get_varn_uchar(int ncid, int varid, int num,
               MPI_Offset* const *starts, MPI_Offset* const *counts,
               unsigned char *ip);
extern int
ncmpi_get_varn_uchar_all(int ncid, int varid, int num,
               MPI_Offset* const *starts, MPI_Offset* const *counts,
               unsigned char *ip);

extern int
ncmpi_get_varn_ushort(int ncid, int varid, int num,
               MPI_Offset* const *starts, MPI_Offset* const *counts,
               unsigned short *ip);
extern int
ncmpi_get_varn_ushort_all(int ncid, int varid, int num,
               MPI_Offset* const *starts, MPI_Offset* const *counts,
               unsigned short *ip);

extern int
ncmpi_get_varn_uint(int ncid, int varid, int num,
               MPI_Offset* const *starts, MPI_Offset* const *counts,
               unsigned int *ip);
extern int
ncmpi_get_varn_uint_all(int ncid, int varid, int num,
               MPI_Offset* const *starts, MPI_Offset* const *counts,
               unsigned int *ip);

extern int
ncmpi_get_varn_long(int ncid, int varid, int num,
               MPI_Offset* const *starts, MPI_Offset* const *counts,
               long *ip);
extern int
ncmpi_get_varn_long_all(int ncid, int varid, int num,
               MPI_Offset* const *starts, MPI_Offset* const *counts,
               long *ip);

extern int
ncmpi_get_varn_ulonglong(int ncid, int varid, int num,
               MPI_Offset* const *starts, MPI_Offset* const *counts,
               unsigned long long *ip);
extern int
ncmpi_get_varn_ulonglong_all(int ncid, int varid, int num,
               MPI_Offset* const *starts, MPI_Offset* const *counts,
               unsigned long long *ip);

/* End Skip Prototypes for Fortran binding */

/* End of {put,get}_varn{kind} */

/* Begin {put,get}_vard */
extern int
ncmpi_get_vard(int ncid, int varid, MPI_Datatype filetype, void *ip,
               MPI_Offset bufcount, MPI_Datatype buftype);
extern int
ncmpi_get_vard_all(int ncid, int varid, MPI_Datatype filetype, void *ip,
               MPI_Offset bufcount, MPI_Datatype buftype);
extern int
ncmpi_put_vard(int ncid, int varid, MPI_Datatype filetype, const void *ip,
               MPI_Offset bufcount, MPI_Datatype buftype);
extern int
ncmpi_put_vard_all(int ncid, int varid, MPI_Datatype filetype, const void *ip,
               MPI_Offset bufcount, MPI_Datatype buftype);
/* End of {put,get}_vard */

/* Begin {mput,mget}_var */

/* #################################################################### */
/* Begin: more prototypes to be included for Fortran binding conversion */

/* Begin non-blocking data access functions */

extern int
ncmpi_wait(int ncid, int count, int array_of_requests[],
           int array_of_statuses[]);

extern int
ncmpi_wait_all(int ncid, int count, int array_of_requests[],
               int array_of_statuses[]);

extern int
ncmpi_cancel(int ncid, int num, int *reqs, int *statuses);

extern int
ncmpi_buffer_attach(int ncid, MPI_Offset bufsize);
extern int
ncmpi_buffer_detach(int ncid);
extern int
ncmpi_inq_buffer_usage(int ncid, MPI_Offset *usage);
extern int
ncmpi_inq_buffer_size(int ncid, MPI_Offset *buf_size);
extern int
ncmpi_inq_nreqs(int ncid, int *nreqs);

/* Begin {iput,iget,bput}_var1 */

extern int
ncmpi_iput_var1(int ncid, int varid, const MPI_Offset *start,
                const void *op, MPI_Offset bufcount,
                MPI_Datatype buftype, int *req);

extern int
ncmpi_iput_var1_text(int ncid, int varid, const MPI_Offset *start,
                const char *op, int *req);

extern int
ncmpi_iput_var1_schar(int ncid, int varid, const MPI_Offset *start,
                const signed char *op, int *req);

extern int
ncmpi_iput_var1_short(int ncid, int varid, const MPI_Offset *start,
                const short *op, int *req);

extern int
ncmpi_iput_var1_int(int ncid, int varid, const MPI_Offset *start,
                const int *op, int *req);

extern int
ncmpi_iput_var1_float(int ncid, int varid, const MPI_Offset *start,
                const float *op, int *req);

extern int
ncmpi_iput_var1_double(int ncid, int varid, const MPI_Offset *start,
                const double *op, int *req);

extern int
ncmpi_iput_var1_longlong(int ncid, int varid, const MPI_Offset *start,
                const long long *op, int *req);

extern int
ncmpi_iget_var1(int ncid, int varid, const MPI_Offset *start, void *ip,
                MPI_Offset bufcount, MPI_Datatype buftype, int *req);

extern int
ncmpi_iget_var1_schar(int ncid, int varid, const MPI_Offset *start,
                signed char *ip, int *req);

extern int
ncmpi_iget_var1_text(int ncid, int varid, const MPI_Offset *start,
                char *ip, int *req);

extern int
ncmpi_iget_var1_short(int ncid, int varid, const MPI_Offset *start,
                short *ip, int *req);

extern int
ncmpi_iget_var1_int(int ncid, int varid, const MPI_Offset *start,
                int *ip, int *req);

extern int
ncmpi_iget_var1_float(int ncid, int varid, const MPI_Offset *start,
                float *ip, int *req);

extern int
ncmpi_iget_var1_double(int ncid, int varid, const MPI_Offset *start,
                double *ip, int *req);

extern int
ncmpi_iget_var1_longlong(int ncid, int varid, const MPI_Offset *start,
                long long *ip, int *req);

extern int
ncmpi_bput_var1(int ncid, int varid, const MPI_Offset *start, const void *op,
                MPI_Offset bufcount, MPI_Datatype buftype, int *req);

extern int
ncmpi_bput_var1_text(int ncid, int varid, const MPI_Offset *start,
                const char *op, int *req);

extern int
ncmpi_bput_var1_schar(int ncid, int varid, const MPI_Offset *start,
                const signed char *op, int *req);

extern int
ncmpi_bput_var1_short(int ncid, int varid, const MPI_Offset *start,
                const short *op, int *req);

extern int
ncmpi_bput_var1_int(int ncid, int varid, const MPI_Offset *start,
                const int *op, int *req);

extern int
ncmpi_bput_var1_float(int ncid, int varid, const MPI_Offset *start,
                const float *op, int *req);

extern int
ncmpi_bput_var1_double(int ncid, int varid, const MPI_Offset *start,
                const double *op, int *req);

extern int
ncmpi_bput_var1_longlong(int ncid, int varid, const MPI_Offset *start,
                const long long *op, int *req);

/* Begin Skip Prototypes for Fortran binding */
/* skip types: uchar, ubyte, ushort, uint, long, ulonglong string */

extern int
ncmpi_iput_var1_uchar(int ncid, int varid, const MPI_Offset *start,
                const unsigned char *op, int *req);

extern int
ncmpi_iput_var1_ushort(int ncid, int varid, const MPI_Offset *start,
                const unsigned short *op, int *req);

extern int
ncmpi_iput_var1_uint(int ncid, int varid, const MPI_Offset *start,
                const unsigned int *op, int *req);

extern int
ncmpi_iput_var1_long(int ncid, int varid, const MPI_Offset *start,
                const long *ip, int *req);

extern int
ncmpi_iput_var1_ulonglong(int ncid, int varid, const MPI_Offset *start,
                const unsigned long long *op, int *req);

extern int
ncmpi_iget_var1_uchar(int ncid, int varid, const MPI_Offset *start,
                unsigned char *ip, int *req);

extern int
ncmpi_iget_var1_ushort(int ncid, int varid, const MPI_Offset *start,
                unsigned short *ip, int *req);

extern int
ncmpi_iget_var1_uint(int ncid, int varid, const MPI_Offset *start,
                unsigned int *ip, int *req);

extern int
ncmpi_iget_var1_long(int ncid, int varid, const MPI_Offset *start,
                long *ip, int *req);

extern int
ncmpi_iget_var1_ulonglong(int ncid, int varid, const MPI_Offset *start,
                unsigned long long *ip, int *req);

extern int
ncmpi_bput_var1_uchar(int ncid, int varid, const MPI_Offset *start,
                const unsigned char *op, int *req);

extern int
ncmpi_bput_var1_ushort(int ncid, int varid, const MPI_Offset *start,
                const unsigned short *op, int *req);

extern int
ncmpi_bput_var1_uint(int ncid, int varid, const MPI_Offset *start,
                const unsigned int *op, int *req);

extern int
ncmpi_bput_var1_long(int ncid, int varid, const MPI_Offset *start,
                const long *ip, int *req);

extern int
ncmpi_bput_var1_ulonglong(int ncid, int varid, const MPI_Offset *start,
                const unsigned long long *op, int *req);

/* End Skip Prototypes for Fortran binding */

/* End {iput,iget,bput}_var1 */

/* Begin {iput,iget,bput}_var */

extern int
ncmpi_iput_var(int ncid, int varid, const void *op, MPI_Offset bufcount,
               MPI_Datatype buftype, int *req);

extern int
ncmpi_iput_var_schar(int ncid, int varid, const signed char *op, int *req);

extern int
ncmpi_iput_var_text(int ncid, int varid, const char *op, int *req);

extern int
ncmpi_iput_var_short(int ncid, int varid, const short *op, int *req);

extern int
ncmpi_iput_var_int(int ncid, int varid, const int *op, int *req);

extern int
ncmpi_iput_var_float(int ncid, int varid, const float *op, int *req);

extern int
ncmpi_iput_var_double(int ncid, int varid, const double *op, int *req);

extern int
ncmpi_iput_var_longlong(int ncid, int varid, const long long *op, int *req);

extern int
ncmpi_iget_var(int ncid, int varid, void *ip, MPI_Offset bufcount,
               MPI_Datatype buftype, int *req);

extern int
ncmpi_iget_var_schar(int ncid, int varid, signed char *ip, int *req);

extern int
ncmpi_iget_var_text(int ncid, int varid, char *ip, int *req);

extern int
ncmpi_iget_var_short(int ncid, int varid, short *ip, int *req);

extern int
ncmpi_iget_var_int(int ncid, int varid, int *ip, int *req);

extern int
ncmpi_iget_var_float(int ncid, int varid, float *ip, int *req);

extern int
ncmpi_iget_var_double(int ncid, int varid, double *ip, int *req);

extern int
ncmpi_iget_var_longlong(int ncid, int varid, long long *ip, int *req);

extern int
ncmpi_bput_var(int ncid, int varid, const void *op, MPI_Offset bufcount,
               MPI_Datatype buftype, int *req);

extern int
ncmpi_bput_var_schar(int ncid, int varid, const signed char *op, int *req);

extern int
ncmpi_bput_var_text(int ncid, int varid, const char *op, int *req);

extern int
ncmpi_bput_var_short(int ncid, int varid, const short *op, int *req);

extern int
ncmpi_bput_var_int(int ncid, int varid, const int *op, int *req);

extern int
ncmpi_bput_var_float(int ncid, int varid, const float *op, int *req);

extern int
ncmpi_bput_var_double(int ncid, int varid, const double *op, int *req);

extern int
ncmpi_bput_var_longlong(int ncid, int varid, const long long *op, int *req);

/* Begin Skip Prototypes for Fortran binding */
/* skip types: uchar, ubyte, ushort, uint, long, ulonglong string */

extern int
ncmpi_iput_var_uchar(int ncid, int varid, const unsigned char *op, int *req);

extern int
ncmpi_iput_var_ushort(int ncid, int varid, const unsigned short *op, int *req);

extern int
ncmpi_iput_var_uint(int ncid, int varid, const unsigned int *op, int *req);

extern int
ncmpi_iput_var_long(int ncid, int varid, const long *op, int *req);

extern int
ncmpi_iput_var_ulonglong(int ncid, int varid, const unsigned long long *op,
               int *req);

extern int
ncmpi_iget_var_uchar(int ncid, int varid, unsigned char *ip, int *req);

extern int
ncmpi_iget_var_ushort(int ncid, int varid, unsigned short *ip, int *req);

extern int
ncmpi_iget_var_uint(int ncid, int varid, unsigned int *ip, int *req);

extern int
ncmpi_iget_var_long(int ncid, int varid, long *ip, int *req);

extern int
ncmpi_iget_var_ulonglong(int ncid, int varid, unsigned long long *ip, int *req);

extern int
ncmpi_bput_var_uchar(int ncid, int varid, const unsigned char *op, int *req);

extern int
ncmpi_bput_var_ushort(int ncid, int varid, const unsigned short *op, int *req);

extern int
ncmpi_bput_var_uint(int ncid, int varid, const unsigned int *op, int *req);

extern int
ncmpi_bput_var_long(int ncid, int varid, const long *op, int *req);

extern int
ncmpi_bput_var_ulonglong(int ncid, int varid, const unsigned long long *op,
               int *req);

/* End Skip Prototypes for Fortran binding */

/* End {iput,iget,bput}_var */

/* Begin {iput,iget,bput}_vara */

extern int
ncmpi_iput_vara(int ncid, int varid, const MPI_Offset *start,
                const MPI_Offset *count, const void *op,
                MPI_Offset bufcount, MPI_Datatype buftype, int *req);

extern int
ncmpi_iput_vara_schar(int ncid, int varid, const MPI_Offset *start,
                const MPI_Offset *count, const signed char *op, int *req);

extern int
ncmpi_iput_vara_text(int ncid, int varid, const MPI_Offset *start,
                const MPI_Offset *count, const char *op, int *req);

extern int
ncmpi_iput_vara_short(int ncid, int varid, const MPI_Offset *start,
                const MPI_Offset *count, const short *op, int *req);

extern int
ncmpi_iput_vara_int(int ncid, int varid, const MPI_Offset *start,
                const MPI_Offset *count, const int *op, int *req);

extern int
ncmpi_iput_vara_float(int ncid, int varid, const MPI_Offset *start,
                const MPI_Offset *count, const float *op, int *req);

extern int
ncmpi_iput_vara_double(int ncid, int varid, const MPI_Offset *start,
                const MPI_Offset *count, const double *op, int *req);

extern int
ncmpi_iput_vara_longlong(int ncid, int varid, const MPI_Offset *start,
                const MPI_Offset *count, const long long *op, int *req);

extern int
ncmpi_iget_vara(int ncid, int varid, const MPI_Offset *start,
                const MPI_Offset *count, void *ip, MPI_Offset bufcount,
                MPI_Datatype buftype, int *req);

extern int
ncmpi_iget_vara_schar(int ncid, int varid, const MPI_Offset *start,
                const MPI_Offset *count, signed char *ip, int *req);

extern int
ncmpi_iget_vara_text(int ncid, int varid, const MPI_Offset *start,
                const MPI_Offset *count, char *ip, int *req);

extern int
ncmpi_iget_vara_short(int ncid, int varid, const MPI_Offset *start,
                const MPI_Offset *count, short *ip, int *req);

extern int
ncmpi_iget_vara_int(int ncid, int varid, const MPI_Offset *start,
                const MPI_Offset *count, int *ip, int *req);

extern int
ncmpi_iget_vara_float(int ncid, int varid, const MPI_Offset *start,
                const MPI_Offset *count, float *ip, int *req);

extern int
ncmpi_iget_vara_double(int ncid, int varid, const MPI_Offset *start,
                const MPI_Offset *count, double *ip, int *req);

extern int
ncmpi_iget_vara_longlong(int ncid, int varid, const MPI_Offset *start,
                const MPI_Offset *count, long long *ip, int *req);

extern int
ncmpi_bput_vara(int ncid, int varid, const MPI_Offset *start,
                const MPI_Offset *count, const void *op,
                MPI_Offset bufcount, MPI_Datatype buftype, int *req);

extern int
ncmpi_bput_vara_schar(int ncid, int varid, const MPI_Offset *start,
                const MPI_Offset *count, const signed char *op, int *req);

extern int
ncmpi_bput_vara_text(int ncid, int varid, const MPI_Offset *start,
                const MPI_Offset *count, const char *op, int *req);

extern int
ncmpi_bput_vara_short(int ncid, int varid, const MPI_Offset *start,
                const MPI_Offset *count, const short *op, int *req);

extern int
ncmpi_bput_vara_int(int ncid, int varid, const MPI_Offset *start,
                const MPI_Offset *count, const int *op, int *req);

extern int
ncmpi_bput_vara_float(int ncid, int varid, const MPI_Offset *start,
                const MPI_Offset *count, const float *op, int *req);

extern int
ncmpi_bput_vara_double(int ncid, int varid, const MPI_Offset *start,
                const MPI_Offset *count, const double *op, int *req);

extern int
ncmpi_bput_vara_longlong(int ncid, int varid, const MPI_Offset *start,
                const MPI_Offset *count, const long long *op, int *req);

/* Begin Skip Prototypes for Fortran binding */
/* skip types: uchar, ubyte, ushort, uint, long, ulonglong string */

extern int
ncmpi_iput_vara_uchar(int ncid, int varid, const MPI_Offset *start,
                const MPI_Offset *count, const unsigned char *op, int *req);

extern int
ncmpi_iput_vara_ushort(int ncid, int varid, const MPI_Offset *start,
                const MPI_Offset *count, const unsigned short *op, int *req);

extern int
ncmpi_iput_vara_uint(int ncid, int varid, const MPI_Offset *start,
                const MPI_Offset *count, const unsigned int *op, int *req);

extern int
ncmpi_iput_vara_long(int ncid, int varid, const MPI_Offset *start,
                const MPI_Offset *count, const long *op, int *req);

extern int
ncmpi_iput_vara_ulonglong(int ncid, int varid, const MPI_Offset *start,
                const MPI_Offset *count, const unsigned long long *op,
                int *req);

extern int
ncmpi_iget_vara_uchar(int ncid, int varid, const MPI_Offset *start,
                const MPI_Offset *count, unsigned char *ip, int *req);

extern int
ncmpi_iget_vara_ushort(int ncid, int varid, const MPI_Offset *start,
                const MPI_Offset *count, unsigned short *ip, int *req);

extern int
ncmpi_iget_vara_uint(int ncid, int varid, const MPI_Offset *start,
                const MPI_Offset *count, unsigned int *ip, int *req);

extern int
ncmpi_iget_vara_long(int ncid, int varid, const MPI_Offset *start,
                const MPI_Offset *count, long *ip, int *req);

extern int
ncmpi_iget_vara_ulonglong(int ncid, int varid, const MPI_Offset *start,
                const MPI_Offset *count, unsigned long long *ip, int *req);

extern int
ncmpi_bput_vara_uchar(int ncid, int varid, const MPI_Offset *start,
                const MPI_Offset *count, const unsigned char *op, int *req);

extern int
ncmpi_bput_vara_ushort(int ncid, int varid, const MPI_Offset *start,
                const MPI_Offset *count, const unsigned short *op, int *req);

extern int
ncmpi_bput_vara_uint(int ncid, int varid, const MPI_Offset *start,
                const MPI_Offset *count, const unsigned int *op, int *req);

extern int
ncmpi_bput_vara_long(int ncid, int varid, const MPI_Offset *start,
                const MPI_Offset *count, const long *op, int *req);

extern int
ncmpi_bput_vara_ulonglong(int ncid, int varid, const MPI_Offset *start,
                const MPI_Offset *count, const unsigned long long *op,
                int *req);

/* End Skip Prototypes for Fortran binding */

/* End {iput,iget,bput}_vara */

/* Begin {iput,iget,bput}_vars */

extern int
ncmpi_iput_vars(int ncid, int varid, const MPI_Offset *start,
                const MPI_Offset *count, const MPI_Offset *stride,
                const void *op, MPI_Offset bufcount,
                MPI_Datatype buftype, int *req);

extern int
ncmpi_iput_vars_schar(int ncid, int varid, const MPI_Offset *start,
                const MPI_Offset *count, const MPI_Offset *stride,
                const signed char *op, int *req);

extern int
ncmpi_iput_vars_text(int ncid, int varid, const MPI_Offset *start,
                const MPI_Offset *count, const MPI_Offset *stride,
                const char *op, int *req);

extern int
ncmpi_iput_vars_short(int ncid, int varid, const MPI_Offset *start,
                const MPI_Offset *count, const MPI_Offset *stride,
                const short *op, int *req);

extern int
ncmpi_iput_vars_int(int ncid, int varid, const MPI_Offset *start,
                const MPI_Offset *count, const MPI_Offset *stride,
                const int *op, int *req);

extern int
ncmpi_iput_vars_float(int ncid, int varid, const MPI_Offset *start,
                const MPI_Offset *count, const MPI_Offset *stride,
                const float *op, int *req);

extern int
ncmpi_iput_vars_double(int ncid, int varid, const MPI_Offset *start,
                const MPI_Offset *count, const MPI_Offset *stride,
                const double *op, int *req);

extern int
ncmpi_iput_vars_longlong(int ncid, int varid, const MPI_Offset *start,
                const MPI_Offset *count, const MPI_Offset *stride,
                const long long *op, int *req);

extern int
ncmpi_iget_vars(int ncid, int varid, const MPI_Offset *start,
                const MPI_Offset *count, const MPI_Offset *stride, void *ip,
                MPI_Offset bufcount, MPI_Datatype buftype, int *req);

extern int
ncmpi_iget_vars_schar(int ncid, int varid, const MPI_Offset *start,
                const MPI_Offset *count, const MPI_Offset *stride,
                signed char *ip, int *req);

extern int
ncmpi_iget_vars_text(int ncid, int varid, const MPI_Offset *start,
                const MPI_Offset *count, const MPI_Offset *stride,
                char *ip, int *req);

extern int
ncmpi_iget_vars_short(int ncid, int varid, const MPI_Offset *start,
                const MPI_Offset *count, const MPI_Offset *stride,
                short *ip, int *req);

extern int
ncmpi_iget_vars_int(int ncid, int varid, const MPI_Offset *start,
                const MPI_Offset *count, const MPI_Offset *stride,
                int *ip, int *req);

extern int
ncmpi_iget_vars_float(int ncid, int varid, const MPI_Offset *start,
                const MPI_Offset *count, const MPI_Offset *stride,
                float *ip, int *req);

extern int
ncmpi_iget_vars_double(int ncid, int varid, const MPI_Offset *start,
                const MPI_Offset *count, const MPI_Offset *stride,
                double *ip, int *req);

extern int
ncmpi_iget_vars_longlong(int ncid, int varid, const MPI_Offset *start,
                const MPI_Offset *count, const MPI_Offset *stride,
                long long *ip, int *req);

extern int
ncmpi_bput_vars(int ncid, int varid, const MPI_Offset *start,
                const MPI_Offset *count, const MPI_Offset *stride,
                const void *op, MPI_Offset bufcount,
                MPI_Datatype buftype, int *req);

extern int
ncmpi_bput_vars_schar(int ncid, int varid, const MPI_Offset *start,
                const MPI_Offset *count, const MPI_Offset *stride,
                const signed char *op, int *req);

extern int
ncmpi_bput_vars_text(int ncid, int varid, const MPI_Offset *start,
                const MPI_Offset *count, const MPI_Offset *stride,
                const char *op, int *req);

extern int
ncmpi_bput_vars_short(int ncid, int varid, const MPI_Offset *start,
                const MPI_Offset *count, const MPI_Offset *stride,
                const short *op, int *req);

extern int
ncmpi_bput_vars_int(int ncid, int varid, const MPI_Offset *start,
                const MPI_Offset *count, const MPI_Offset *stride,
                const int *op, int *req);

extern int
ncmpi_bput_vars_float(int ncid, int varid, const MPI_Offset *start,
                const MPI_Offset *count, const MPI_Offset *stride,
                const float *op, int *req);

extern int
ncmpi_bput_vars_double(int ncid, int varid, const MPI_Offset *start,
                const MPI_Offset *count, const MPI_Offset *stride,
                const double *op, int *req);

extern int
ncmpi_bput_vars_longlong(int ncid, int varid, const MPI_Offset *start,
                const MPI_Offset *count, const MPI_Offset *stride,
                const long long *op, int *req);

/* Begin Skip Prototypes for Fortran binding */
/* skip types: uchar, ubyte, ushort, uint, long, ulonglong string */

extern int
ncmpi_iput_vars_uchar(int ncid, int varid, const MPI_Offset *start,
                const MPI_Offset *count, const MPI_Offset *stride,
                const unsigned char *op, int *req);

extern int
ncmpi_iput_vars_ushort(int ncid, int varid, const MPI_Offset *start,
                const MPI_Offset *count, const MPI_Offset *stride,
                const unsigned short *op, int *req);

extern int
ncmpi_iput_vars_uint(int ncid, int varid, const MPI_Offset *start,
                const MPI_Offset *count, const MPI_Offset *stride,
                const unsigned int *op, int *req);

extern int
ncmpi_iput_vars_long(int ncid, int varid, const MPI_Offset *start,
                const MPI_Offset *count, const MPI_Offset *stride,
                const long *op, int *req);

extern int
ncmpi_iput_vars_ulonglong(int ncid, int varid, const MPI_Offset *start,
                const MPI_Offset *count, const MPI_Offset *stride,
                const unsigned long long *op, int *req);

extern int
ncmpi_iget_vars_uchar(int ncid, int varid, const MPI_Offset *start,
                const MPI_Offset *count, const MPI_Offset *stride,
                unsigned char *ip, int *req);

extern int
ncmpi_iget_vars_ushort(int ncid, int varid, const MPI_Offset *start,
                const MPI_Offset *count, const MPI_Offset *stride,
                unsigned short *ip, int *req);

extern int
ncmpi_iget_vars_uint(int ncid, int varid, const MPI_Offset *start,
                const MPI_Offset *count, const MPI_Offset *stride,
                unsigned int *ip, int *req);

extern int
ncmpi_iget_vars_long(int ncid, int varid, const MPI_Offset *start,
                const MPI_Offset *count, const MPI_Offset *stride,
                long *ip, int *req);

extern int
ncmpi_iget_vars_ulonglong(int ncid, int varid, const MPI_Offset *start,
                const MPI_Offset *count, const MPI_Offset *stride,
                unsigned long long *ip, int *req);

extern int
ncmpi_bput_vars_uchar(int ncid, int varid, const MPI_Offset *start,
                const MPI_Offset *count, const MPI_Offset *stride,
                const unsigned char *op, int *req);

extern int
ncmpi_bput_vars_ushort(int ncid, int varid, const MPI_Offset *start,
                const MPI_Offset *count, const MPI_Offset *stride,
                const unsigned short *op, int *req);

extern int
ncmpi_bput_vars_uint(int ncid, int varid, const MPI_Offset *start,
                const MPI_Offset *count, const MPI_Offset *stride,
                const unsigned int *op, int *req);

extern int
ncmpi_bput_vars_long(int ncid, int varid, const MPI_Offset *start,
                const MPI_Offset *count, const MPI_Offset *stride,
                const long *op, int *req);

extern int
ncmpi_bput_vars_ulonglong(int ncid, int varid, const MPI_Offset *start,
                const MPI_Offset *count, const MPI_Offset *stride,
                const unsigned long long *op, int *req);

/* End Skip Prototypes for Fortran binding */

/* End {iput,iget,bput}_vars */

/* Begin {iput,iget,bput}_varm */

extern int
ncmpi_iput_varm(int ncid, int varid, const MPI_Offset *start,
                const MPI_Offset *count, const MPI_Offset *stride,
                const MPI_Offset *imap, const void *op,
                MPI_Offset bufcount, MPI_Datatype buftype, int *req);

extern int
ncmpi_iput_varm_schar(int ncid, int varid, const MPI_Offset *start,
                const MPI_Offset *count, const MPI_Offset *stride,
                const MPI_Offset *imap, const signed char *op,
                int *req);

extern int
ncmpi_iput_varm_text(int ncid, int varid, const MPI_Offset *start,
                const MPI_Offset *count, const MPI_Offset *stride,
                const MPI_Offset *imap, const char *op, int *req);

extern int
ncmpi_iput_varm_short(int ncid, int varid, const MPI_Offset *start,
                const MPI_Offset *count, const MPI_Offset *stride,
                const MPI_Offset *imap, const short *op, int *req);

extern int
ncmpi_iput_varm_int(int ncid, int varid, const MPI_Offset *start,
                const MPI_Offset *count, const MPI_Offset *stride,
                const MPI_Offset *imap, const int *op, int *req);

extern int
ncmpi_iput_varm_float(int ncid, int varid, const MPI_Offset *start,
                const MPI_Offset *count, const MPI_Offset *stride,
                const MPI_Offset *imap, const float *op, int *req);

extern int
ncmpi_iput_varm_double(int ncid, int varid, const MPI_Offset *start,
                const MPI_Offset *count, const MPI_Offset *stride,
                const MPI_Offset *imap, const double *op, int *req);

extern int
ncmpi_iput_varm_longlong(int ncid, int varid, const MPI_Offset *start,
                const MPI_Offset *count, const MPI_Offset *stride,
                const MPI_Offset *imap, const long long *op, int *req);

extern int
ncmpi_iget_varm(int ncid, int varid, const MPI_Offset *start,
                const MPI_Offset *count, const MPI_Offset *stride,
                const MPI_Offset *imap, void *ip, MPI_Offset bufcount,
                MPI_Datatype buftype, int *req);

extern int
ncmpi_iget_varm_schar(int ncid, int varid, const MPI_Offset *start,
                const MPI_Offset *count, const MPI_Offset *stride,
                const MPI_Offset *imap, signed char *ip, int *req);

extern int
ncmpi_iget_varm_text(int ncid, int varid, const MPI_Offset *start,
                const MPI_Offset *count, const MPI_Offset *stride,
                const MPI_Offset *imap, char *ip, int *req);

extern int
ncmpi_iget_varm_short(int ncid, int varid, const MPI_Offset *start,
                const MPI_Offset *count, const MPI_Offset *stride,
                const MPI_Offset *imap, short *ip, int *req);

extern int
ncmpi_iget_varm_int(int ncid, int varid, const MPI_Offset *start,
                const MPI_Offset *count, const MPI_Offset *stride,
                const MPI_Offset *imap, int *ip, int *req);

extern int
ncmpi_iget_varm_float(int ncid, int varid, const MPI_Offset *start,
                const MPI_Offset *count, const MPI_Offset *stride,
                const MPI_Offset *imap, float *ip, int *req);

extern int
ncmpi_iget_varm_double(int ncid, int varid, const MPI_Offset *start,
                const MPI_Offset *count, const MPI_Offset *stride,
                const MPI_Offset *imap, double *ip, int *req);

extern int
ncmpi_iget_varm_longlong(int ncid, int varid, const MPI_Offset *start,
                const MPI_Offset *count, const MPI_Offset *stride,
                const MPI_Offset *imap, long long *ip, int *req);

extern int
ncmpi_bput_varm(int ncid, int varid, const MPI_Offset *start,
                const MPI_Offset *count, const MPI_Offset *stride,
                const MPI_Offset *imap, const void *op,
                MPI_Offset bufcount, MPI_Datatype buftype, int *req);

extern int
ncmpi_bput_varm_schar(int ncid, int varid, const MPI_Offset *start,
                const MPI_Offset *count, const MPI_Offset *stride,
                const MPI_Offset *imap, const signed char *op, int *req);

extern int
ncmpi_bput_varm_text(int ncid, int varid, const MPI_Offset *start,
                const MPI_Offset *count, const MPI_Offset *stride,
                const MPI_Offset *imap, const char *op, int *req);

extern int
ncmpi_bput_varm_short(int ncid, int varid, const MPI_Offset *start,
                const MPI_Offset *count, const MPI_Offset *stride,
                const MPI_Offset *imap, const short *op, int *req);

extern int
ncmpi_bput_varm_int(int ncid, int varid, const MPI_Offset *start,
                const MPI_Offset *count, const MPI_Offset *stride,
                const MPI_Offset *imap, const int *op, int *req);

extern int
ncmpi_bput_varm_float(int ncid, int varid, const MPI_Offset *start,
                const MPI_Offset *count, const MPI_Offset *stride,
                const MPI_Offset *imap, const float *op, int *req);

extern int
ncmpi_bput_varm_double(int ncid, int varid, const MPI_Offset *start,
                const MPI_Offset *count, const MPI_Offset *stride,
                const MPI_Offset *imap, const double *op, int *req);

extern int
ncmpi_bput_varm_longlong(int ncid, int varid, const MPI_Offset *start,
                const MPI_Offset *count, const MPI_Offset *stride,
                const MPI_Offset *imap, const long long *op, int *req);

/* Begin Skip Prototypes for Fortran binding */
/* skip types: uchar, ubyte, ushort, uint, long, ulonglong string */

extern int
ncmpi_iput_varm_uchar(int ncid, int varid, const MPI_Offset *start,
                const MPI_Offset *count, const MPI_Offset *stride,
                const MPI_Offset *imap, const unsigned char *op, int *req);

extern int
ncmpi_iput_varm_ushort(int ncid, int varid, const MPI_Offset *start,
                const MPI_Offset *count, const MPI_Offset *stride,
                const MPI_Offset *imap, const unsigned short *op, int *req);

extern int
ncmpi_iput_varm_uint(int ncid, int varid, const MPI_Offset *start,
                const MPI_Offset *count, const MPI_Offset *stride,
                const MPI_Offset *imap, const unsigned int *op, int *req);

extern int
ncmpi_iput_varm_long(int ncid, int varid, const MPI_Offset *start,
                const MPI_Offset *count, const MPI_Offset *stride,
                const MPI_Offset *imap, const long *op, int *req);

extern int
ncmpi_iput_varm_ulonglong(int ncid, int varid, const MPI_Offset *start,
                const MPI_Offset *count, const MPI_Offset *stride,
                const MPI_Offset *imap, const unsigned long long *op,
                int *req);

extern int
ncmpi_iget_varm_uchar(int ncid, int varid, const MPI_Offset *start,
                const MPI_Offset *count, const MPI_Offset *stride,
                const MPI_Offset *imap, unsigned char *ip, int *req);

extern int
ncmpi_iget_varm_ushort(int ncid, int varid, const MPI_Offset *start,
                const MPI_Offset *count, const MPI_Offset *stride,
                const MPI_Offset *imap, unsigned short *ip, int *req);

extern int
ncmpi_iget_varm_uint(int ncid, int varid, const MPI_Offset *start,
                const MPI_Offset *count, const MPI_Offset *stride,
                const MPI_Offset *imap, unsigned int *ip, int *req);

extern int
ncmpi_iget_varm_long(int ncid, int varid, const MPI_Offset *start,
                const MPI_Offset *count, const MPI_Offset *stride,
                const MPI_Offset *imap, long *ip, int *req);

extern int
ncmpi_iget_varm_ulonglong(int ncid, int varid, const MPI_Offset *start,
                const MPI_Offset *count, const MPI_Offset *stride,
                const MPI_Offset *imap, unsigned long long *ip, int *req);

extern int
ncmpi_bput_varm_uchar(int ncid, int varid, const MPI_Offset *start,
                const MPI_Offset *count, const MPI_Offset *stride,
                const MPI_Offset *imap, const unsigned char *op,
                int *req);

extern int
ncmpi_bput_varm_ushort(int ncid, int varid, const MPI_Offset *start,
                const MPI_Offset *count, const MPI_Offset *stride,
                const MPI_Offset *imap, const unsigned short *op,
                int *req);

extern int
ncmpi_bput_varm_uint(int ncid, int varid, const MPI_Offset *start,
                const MPI_Offset *count, const MPI_Offset *stride,
                const MPI_Offset *imap, const unsigned int *op,
                int *req);

extern int
ncmpi_bput_varm_long(int ncid, int varid, const MPI_Offset *start,
                const MPI_Offset *count, const MPI_Offset *stride,
                const MPI_Offset *imap, const long *op, int *req);

extern int
ncmpi_bput_varm_ulonglong(int ncid, int varid, const MPI_Offset *start,
                const MPI_Offset *count, const MPI_Offset *stride,
                const MPI_Offset *imap, const unsigned long long *op,
                int *req);

/* End Skip Prototypes for Fortran binding */

/* End {iput,iget,bput}_varm */

/* Begin of nonblocking {iput,iget}_varn{kind} */

extern int
ncmpi_iput_varn(int ncid, int varid, int num, MPI_Offset* const *starts,
                MPI_Offset* const *counts, const void *op,
                MPI_Offset bufcount, MPI_Datatype buftype, int *req);

extern int
ncmpi_iget_varn(int ncid, int varid, int num, MPI_Offset* const *starts,
                MPI_Offset* const *counts,  void *op, MPI_Offset bufcount,
                MPI_Datatype buftype, int *req);

extern int
ncmpi_iput_varn_text(int ncid, int varid, int num,
                MPI_Offset* const *starts,
                MPI_Offset* const *counts, const char *op, int *req);

extern int
ncmpi_iput_varn_schar(int ncid, int varid, int num,
               MPI_Offset* const *starts, MPI_Offset* const *counts,
               const signed char *op, int *req);

extern int
ncmpi_iput_varn_short(int ncid, int varid, int num,
               MPI_Offset* const *starts, MPI_Offset* const *counts,
               const short *op, int *req);

extern int
ncmpi_iput_varn_int(int ncid, int varid, int num,
               MPI_Offset* const *starts, MPI_Offset* const *counts,
               const int *op, int *req);

extern int
ncmpi_iput_varn_float(int ncid, int varid, int num,
               MPI_Offset* const *starts, MPI_Offset* const *counts,
               const float *op, int *req);

extern int
ncmpi_iput_varn_double(int ncid, int varid, int num,
               MPI_Offset* const *starts, MPI_Offset* const *counts,
               const double *op, int *req);

extern int
ncmpi_iput_varn_longlong(int ncid, int varid, int num,
               MPI_Offset* const *starts, MPI_Offset* const *counts,
               const long long *op, int *req);


/* Begin Skip Prototypes for Fortran binding */
/* skip types: uchar, ubyte, ushort, uint, long, ulonglong string */

extern int
ncmpi_iput_varn_uchar(int ncid, int varid, int num,
               MPI_Offset* const *starts, MPI_Offset* const *counts,
               const unsigned char *op, int *req);

extern int
ncmpi_iput_varn_ushort(int ncid, int varid, int num,
               MPI_Offset* const *starts, MPI_Offset* const *counts,
               const unsigned short *op, int *req);

extern int
ncmpi_iput_varn_uint(int ncid, int varid, int num,
               MPI_Offset* const *starts, MPI_Offset* const *counts,
               const unsigned int *op, int *req);

extern int
ncmpi_iput_varn_long(int ncid, int varid, int num,
               MPI_Offset* const *starts, MPI_Offset* const *counts,
               const long *op, int *req);

extern int
ncmpi_iput_varn_ulonglong(int ncid, int varid, int num,
               MPI_Offset* const *starts, MPI_Offset* const *counts,
               const unsigned long long *op, int *req);

/* End Skip Prototypes for Fortran binding */

extern int
ncmpi_iget_varn_text(int ncid, int varid, int num,
               MPI_Offset* const *starts, MPI_Offset* const *counts,
               char *ip, int *req);

extern int
ncmpi_iget_varn_schar(int ncid, int varid, int num,
               MPI_Offset* const *starts, MPI_Offset* const *counts,
               signed char *ip, int *req);

extern int
ncmpi_iget_varn_short(int ncid, int varid, int num,
               MPI_Offset* const *starts, MPI_Offset* const *counts,
               short *ip, int *req);

extern int
ncmpi_iget_varn_int(int ncid, int varid, int num,
               MPI_Offset* const *starts, MPI_Offset* const *counts,
               int *ip, int *req);

extern int
ncmpi_iget_varn_float(int ncid, int varid, int num,
               MPI_Offset* const *starts, MPI_Offset* const *counts,
               float *ip, int *req);

extern int
ncmpi_iget_varn_double(int ncid, int varid, int num,
               MPI_Offset* const *starts, MPI_Offset* const *counts,
               double *ip, int *req);

extern int
ncmpi_iget_varn_longlong(int ncid, int varid, int num,
               MPI_Offset* const *starts, MPI_Offset* const *counts,
               long long *ip, int *req);


/* Begin Skip Prototypes for Fortran binding */
/* skip types: uchar, ubyte, ushort, uint, long, ulonglong string */

extern int
ncmpi_iget_varn_uchar(int ncid, int varid, int num,
               MPI_Offset* const *starts, MPI_Offset* const *counts,
               unsigned char *ip, int *req);

extern int
ncmpi_iget_varn_ushort(int ncid, int varid, int num,
               MPI_Offset* const *starts, MPI_Offset* const *counts,
               unsigned short *ip, int *req);

extern int
ncmpi_iget_varn_uint(int ncid, int varid, int num,
               MPI_Offset* const *starts, MPI_Offset* const *counts,
               unsigned int *ip, int *req);

extern int
ncmpi_iget_varn_long(int ncid, int varid, int num,
               MPI_Offset* const *starts, MPI_Offset* const *counts,
               long *ip, int *req);

extern int
ncmpi_iget_varn_ulonglong(int ncid, int varid, int num,
               MPI_Offset* const *starts, MPI_Offset* const *counts,
               unsigned long long *ip, int *req);

/* End Skip Prototypes for Fortran binding */

/* End of {iput,iget}_varn{kind} */

/* Begin of nonblocking bput_varn{kind} */

extern int
ncmpi_bput_varn(int ncid, int varid, int num, MPI_Offset* const *starts,
               MPI_Offset* const *counts, const void *op,
               MPI_Offset bufcount, MPI_Datatype buftype, int *req);

extern int
ncmpi_bput_varn_text(int ncid, int varid, int num,
               MPI_Offset* const *starts, MPI_Offset* const *counts,
               const char *op, int *req);

extern int
ncmpi_bput_varn_schar(int ncid, int varid, int num,
               MPI_Offset* const *starts, MPI_Offset* const *counts,
               const signed char *op, int *req);

extern int
ncmpi_bput_varn_short(int ncid, int varid, int num,
               MPI_Offset* const *starts, MPI_Offset* const *counts,
               const short *op, int *req);

extern int
ncmpi_bput_varn_int(int ncid, int varid, int num,
               MPI_Offset* const *starts, MPI_Offset* const *counts,
               const int *op, int *req);

extern int
ncmpi_bput_varn_float(int ncid, int varid, int num,
               MPI_Offset* const *starts, MPI_Offset* const *counts,
               const float *op, int *req);

extern int
ncmpi_bput_varn_double(int ncid, int varid, int num,
               MPI_Offset* const *starts, MPI_Offset* const *counts,
               const double *op, int *req);

extern int
ncmpi_bput_varn_longlong(int ncid, int varid, int num,
               MPI_Offset* const *starts, MPI_Offset* const *counts,
               const long long *op, int *req);


/* Begin Skip Prototypes for Fortran binding */
/* skip types: uchar, ubyte, ushort, uint, long, ulonglong string */

extern int
ncmpi_bput_varn_uchar(int ncid, int varid, int num,
               MPI_Offset* const *starts, MPI_Offset* const *counts,
               const unsigned char *op, int *req);

extern int
ncmpi_bput_varn_ushort(int ncid, int varid, int num,
               MPI_Offset* const *starts, MPI_Offset* const *counts,
               const unsigned short *op, int *req);

extern int
ncmpi_bput_varn_uint(int ncid, int varid, int num,
               MPI_Offset* const *starts, MPI_Offset* const *counts,
               const unsigned int *op, int *req);

extern int
ncmpi_bput_varn_long(int ncid, int varid, int num,
               MPI_Offset* const *starts, MPI_Offset* const *counts,
               const long *op, int *req);

extern int
ncmpi_bput_varn_ulonglong(int ncid, int varid, int num,
               MPI_Offset* const *starts, MPI_Offset* const *counts,
               const unsigned long long *op, int *req);

/* End Skip Prototypes for Fortran binding */

/* End of bput_varn{kind} */

/* End non-blocking data access functions */

/* Begin Skip Prototypes for Fortran binding */
/* skip all mput/mget APIs as Fortran cannot handle array of buffers */

extern int
ncmpi_mput_var(int ncid, int num, int *varids, void* const *buf,
               const MPI_Offset *bufcounts, const MPI_Datatype datatypes[]);

extern int
ncmpi_mput_var_all(int ncid, int num, int *varids, void* const *buf,
               const MPI_Offset *bufcounts, const MPI_Datatype datatypes[]);

extern int
ncmpi_mput_var_text(int ncid, int num, int *varids, char* const *buf);
extern int
ncmpi_mput_var_text_all(int ncid, int num, int *varids, char* const *buf);

extern int
ncmpi_mput_var_schar(int ncid, int num, int *varids, signed char* const *buf);
extern int
ncmpi_mput_var_schar_all(int ncid, int num, int *varids, signed char* const *buf);

extern int
ncmpi_mput_var_uchar(int ncid, int num, int *varids, unsigned char* const *buf);
extern int
ncmpi_mput_var_uchar_all(int ncid, int num, int *varids, unsigned char* const *buf);

extern int
ncmpi_mput_var_short(int ncid, int num, int *varids, short* const *buf);
extern int
ncmpi_mput_var_short_all(int ncid, int num, int *varids, short* const *buf);

extern int
ncmpi_mput_var_ushort(int ncid, int num, int *varids, unsigned short* const *buf);
extern int
ncmpi_mput_var_ushort_all(int ncid, int num, int *varids,
               unsigned short* const *buf);

extern int
ncmpi_mput_var_int(int ncid, int num, int *varids, int* const *buf);
extern int
ncmpi_mput_var_int_all(int ncid, int num, int *varids, int* const *buf);

extern int
ncmpi_mput_var_uint(int ncid, int num, int *varids, unsigned int* const *buf);
extern int
ncmpi_mput_var_uint_all(int ncid, int num, int *varids, unsigned int* const *buf);

extern int
ncmpi_mput_var_long(int ncid, int num, int *varids, long* const *buf);
extern int
ncmpi_mput_var_long_all(int ncid, int num, int *varids, long* const *buf);

extern int
ncmpi_mput_var_float(int ncid, int num, int *varids, float* const *buf);
extern int
ncmpi_mput_var_float_all(int ncid, int num, int *varids, float* const *buf);

extern int
ncmpi_mput_var_double(int ncid, int num, int *varids, double* const *buf);
extern int
ncmpi_mput_var_double_all(int ncid, int num, int *varids, double* const *buf);

extern int
ncmpi_mput_var_longlong(int ncid, int num, int *varids, long long* const *buf);
extern int
ncmpi_mput_var_longlong_all(int ncid, int num, int *varids, long long* const *buf);

extern int
ncmpi_mput_var_ulonglong(int ncid, int num, int *varids,
               unsigned long long* const *buf);
extern int
ncmpi_mput_var_ulonglong_all(int ncid, int num, int *varids,
               unsigned long long* const *buf);

extern int
ncmpi_mput_var1(int ncid, int num, int *varids,
               MPI_Offset* const *starts, void* const *buf,
               const MPI_Offset *bufcounts, const MPI_Datatype datatypes[]);
extern int
ncmpi_mput_var1_all(int ncid, int num, int *varids,
               MPI_Offset* const *starts, void* const *buf,
               const MPI_Offset *bufcounts, const MPI_Datatype datatypes[]);

extern int
ncmpi_mput_var1_text(int ncid, int num, int *varids,
               MPI_Offset* const *starts, char* const *buf);
extern int
ncmpi_mput_var1_text_all(int ncid, int num, int *varids,
               MPI_Offset* const *starts, char* const *buf);

extern int
ncmpi_mput_var1_schar(int ncid, int num, int *varids,
               MPI_Offset* const *starts, signed char* const *buf);
extern int
ncmpi_mput_var1_schar_all(int ncid, int num, int *varids,
               MPI_Offset* const *starts, signed char* const *buf);

extern int
ncmpi_mput_var1_uchar(int ncid, int num, int *varids,
               MPI_Offset* const *starts, unsigned char* const *buf);
extern int
ncmpi_mput_var1_uchar_all(int ncid, int num, int *varids,
               MPI_Offset* const *starts, unsigned char* const *buf);

extern int
ncmpi_mput_var1_short(int ncid, int num, int *varids,
               MPI_Offset* const *starts, short* const *buf);
extern int
ncmpi_mput_var1_short_all(int ncid, int num, int *varids,
               MPI_Offset* const *starts, short* const *buf);

extern int
ncmpi_mput_var1_ushort(int ncid, int num, int *varids,
               MPI_Offset* const *starts, unsigned short* const *buf);
extern int
ncmpi_mput_var1_ushort_all(int ncid, int num, int *varids,
               MPI_Offset* const *starts, unsigned short* const *buf);

extern int
ncmpi_mput_var1_int(int ncid, int num, int *varids,
               MPI_Offset* const *starts, int* const *buf);
extern int
ncmpi_mput_var1_int_all(int ncid, int num, int *varids,
               MPI_Offset* const *starts, int* const *buf);

extern int
ncmpi_mput_var1_uint(int ncid, int num, int *varids,
               MPI_Offset* const *starts, unsigned int* const *buf);
extern int
ncmpi_mput_var1_uint_all(int ncid, int num, int *varids,
               MPI_Offset* const *starts, unsigned int* const *buf);

extern int
ncmpi_mput_var1_long(int ncid, int num, int *varids,
               MPI_Offset* const *starts, long* const *buf);
extern int
ncmpi_mput_var1_long_all(int ncid, int num, int *varids,
               MPI_Offset* const *starts, long* const *buf);

extern int
ncmpi_mput_var1_float(int ncid, int num, int *varids,
               MPI_Offset* const *starts, float* const *buf);
extern int
ncmpi_mput_var1_float_all(int ncid, int num, int *varids,
               MPI_Offset* const *starts, float* const *buf);

extern int
ncmpi_mput_var1_double(int ncid, int num, int *varids,
               MPI_Offset* const *starts, double* const *buf);
extern int
ncmpi_mput_var1_double_all(int ncid, int num, int *varids,
               MPI_Offset* const *starts, double* const *buf);

extern int
ncmpi_mput_var1_longlong(int ncid, int num, int *varids,
               MPI_Offset* const *starts, long long* const *buf);
extern int
ncmpi_mput_var1_longlong_all(int ncid, int num, int *varids,
               MPI_Offset* const *starts, long long* const *buf);

extern int
ncmpi_mput_var1_ulonglong(int ncid, int num, int *varids,
               MPI_Offset* const *starts, unsigned long long* const *buf);
extern int
ncmpi_mput_var1_ulonglong_all(int ncid, int num, int *varids,
               MPI_Offset* const *starts, unsigned long long* const *buf);


extern int
ncmpi_mput_vara(int ncid, int num, int *varids, MPI_Offset* const *starts,
               MPI_Offset* const *counts, void* const *buf,
               const MPI_Offset *bufcounts, const MPI_Datatype datatypes[]);
extern int
ncmpi_mput_vara_all(int ncid, int num, int *varids,
               MPI_Offset* const *starts, MPI_Offset* const *counts,
               void* const *buf, const MPI_Offset *bufcounts, const MPI_Datatype datatypes[]);

extern int
ncmpi_mput_vara_text(int ncid, int num, int *varids,
               MPI_Offset* const *starts, MPI_Offset* const *counts,
               char* const *buf);
extern int
ncmpi_mput_vara_text_all(int ncid, int num, int *varids,
               MPI_Offset* const *starts, MPI_Offset* const *counts,
               char* const *buf);

extern int
ncmpi_mput_vara_schar(int ncid, int num, int *varids,
               MPI_Offset* const *starts, MPI_Offset* const *counts,
               signed char* const *buf);
extern int
ncmpi_mput_vara_schar_all(int ncid, int num, int *varids,
               MPI_Offset* const *starts, MPI_Offset* const *counts,
               signed char* const *buf);

extern int
ncmpi_mput_vara_uchar(int ncid, int num, int *varids,
               MPI_Offset* const *starts, MPI_Offset* const *counts,
               unsigned char* const *buf);
extern int
ncmpi_mput_vara_uchar_all(int ncid, int num, int *varids,
               MPI_Offset* const *starts, MPI_Offset* const *counts,
               unsigned char* const *buf);

extern int
ncmpi_mput_vara_short(int ncid, int num, int *varids,
               MPI_Offset* const *starts, MPI_Offset* const *counts,
               short* const *buf);
extern int
ncmpi_mput_vara_short_all(int ncid, int num, int *varids,
               MPI_Offset* const *starts, MPI_Offset* const *counts,
               short* const *buf);

extern int
ncmpi_mput_vara_ushort(int ncid, int num, int *varids,
               MPI_Offset* const *starts, MPI_Offset* const *counts,
               unsigned short* const *buf);
extern int
ncmpi_mput_vara_ushort_all(int ncid, int num, int *varids,
               MPI_Offset* const *starts, MPI_Offset* const *counts,
               unsigned short* const *buf);

extern int
ncmpi_mput_vara_int(int ncid, int num, int *varids,
               MPI_Offset* const *starts, MPI_Offset* const *counts,
               int* const *buf);
extern int
ncmpi_mput_vara_int_all(int ncid, int num, int *varids,
               MPI_Offset* const *starts, MPI_Offset* const *counts,
               int* const *buf);

extern int
ncmpi_mput_vara_uint(int ncid, int num, int *varids,
               MPI_Offset* const *starts, MPI_Offset* const *counts,
               unsigned int* const *buf);
extern int
ncmpi_mput_vara_uint_all(int ncid, int num, int *varids,
               MPI_Offset* const *starts, MPI_Offset* const *counts,
               unsigned int* const *buf);

extern int
ncmpi_mput_vara_long(int ncid, int num, int *varids,
               MPI_Offset* const *starts, MPI_Offset* const *counts,
               long* const *buf);
extern int
ncmpi_mput_vara_long_all(int ncid, int num, int *varids,
               MPI_Offset* const *starts, MPI_Offset* const *counts,
               long* const *buf);

extern int
ncmpi_mput_vara_float(int ncid, int num, int *varids,
               MPI_Offset* const *starts, MPI_Offset* const *counts,
               float* const *buf);
extern int
ncmpi_mput_vara_float_all(int ncid, int num, int *varids,
               MPI_Offset* const *starts, MPI_Offset* const *counts,
               float* const *buf);

extern int
ncmpi_mput_vara_double(int ncid, int num, int *varids,
               MPI_Offset* const *starts, MPI_Offset* const *counts,
               double* const *buf);
extern int
ncmpi_mput_vara_double_all(int ncid, int num, int *varids,
               MPI_Offset* const *starts, MPI_Offset* const *counts,
               double* const *buf);

extern int
ncmpi_mput_vara_longlong(int ncid, int num, int *varids,
               MPI_Offset* const *starts, MPI_Offset* const *counts,
               long long* const *buf);
extern int
ncmpi_mput_vara_longlong_all(int ncid, int num, int *varids,
               MPI_Offset* const *starts, MPI_Offset* const *counts,
               long long* const *buf);

extern int
ncmpi_mput_vara_ulonglong(int ncid, int num, int *varids,
               MPI_Offset* const *starts, MPI_Offset* const *counts,
               unsigned long long* const *buf);
extern int
ncmpi_mput_vara_ulonglong_all(int ncid, int num, int *varids,
               MPI_Offset* const *starts, MPI_Offset* const *counts,
               unsigned long long* const *buf);


extern int
ncmpi_mput_vars(int ncid, int num, int *varids,
               MPI_Offset* const *starts, MPI_Offset* const *counts,
               MPI_Offset* const *strides, void* const *buf,
               const MPI_Offset *bufcounts, const MPI_Datatype datatypes[]);

extern int
ncmpi_mput_vars_all(int ncid, int num, int *varids,
               MPI_Offset* const *starts, MPI_Offset* const *counts,
               MPI_Offset* const *strides, void* const *buf,
               const MPI_Offset *bufcounts, const MPI_Datatype datatypes[]);

extern int
ncmpi_mput_vars_text(int ncid, int num, int *varids,
               MPI_Offset* const *starts, MPI_Offset* const *counts,
               MPI_Offset* const *strides, char* const *buf);
extern int
ncmpi_mput_vars_text_all(int ncid, int num, int *varids,
               MPI_Offset* const *starts, MPI_Offset* const *counts,
               MPI_Offset* const *strides, char* const *buf);

extern int
ncmpi_mput_vars_schar(int ncid, int num, int *varids,
               MPI_Offset* const *starts, MPI_Offset* const *counts,
               MPI_Offset* const *strides, signed char* const *buf);
extern int
ncmpi_mput_vars_schar_all(int ncid, int num, int *varids,
               MPI_Offset* const *starts, MPI_Offset* const *counts,
               MPI_Offset* const *strides, signed char* const *buf);

extern int
ncmpi_mput_vars_uchar(int ncid, int num, int *varids,
               MPI_Offset* const *starts, MPI_Offset* const *counts,
               MPI_Offset* const *strides, unsigned char* const *buf);
extern int
ncmpi_mput_vars_uchar_all(int ncid, int num, int *varids,
               MPI_Offset* const *starts, MPI_Offset* const *counts,
               MPI_Offset* const *strides, unsigned char* const *buf);

extern int
ncmpi_mput_vars_short(int ncid, int num, int *varids,
               MPI_Offset* const *starts, MPI_Offset* const *counts,
               MPI_Offset* const *strides, short* const *buf);
extern int
ncmpi_mput_vars_short_all(int ncid, int num, int *varids,
               MPI_Offset* const *starts, MPI_Offset* const *counts,
               MPI_Offset* const *strides, short* const *buf);

extern int
ncmpi_mput_vars_ushort(int ncid, int num, int *varids,
               MPI_Offset* const *starts, MPI_Offset* const *counts,
               MPI_Offset* const *strides, unsigned short* const *buf);
extern int
ncmpi_mput_vars_ushort_all(int ncid, int num, int *varids,
               MPI_Offset* const *starts, MPI_Offset* const *counts,
               MPI_Offset* const *strides, unsigned short* const *buf);

extern int
ncmpi_mput_vars_int(int ncid, int num, int *varids,
               MPI_Offset* const *starts, MPI_Offset* const *counts,
               MPI_Offset* const *strides, int* const *buf);
extern int
ncmpi_mput_vars_int_all(int ncid, int num, int *varids,
               MPI_Offset* const *starts, MPI_Offset* const *counts,
               MPI_Offset* const *strides, int* const *buf);

extern int
ncmpi_mput_vars_uint(int ncid, int num, int *varids,
               MPI_Offset* const *starts, MPI_Offset* const *counts,
               MPI_Offset* const *strides, unsigned int* const *buf);
extern int
ncmpi_mput_vars_uint_all(int ncid, int num, int *varids,
               MPI_Offset* const *starts, MPI_Offset* const *counts,
               MPI_Offset* const *strides, unsigned int* const *buf);

extern int
ncmpi_mput_vars_long(int ncid, int num, int *varids,
               MPI_Offset* const *starts, MPI_Offset* const *counts,
               MPI_Offset* const *strides, long* const *buf);
extern int
ncmpi_mput_vars_long_all(int ncid, int num, int *varids,
               MPI_Offset* const *starts, MPI_Offset* const *counts,
               MPI_Offset* const *strides, long* const *buf);

extern int
ncmpi_mput_vars_float(int ncid, int num, int *varids,
               MPI_Offset* const *starts, MPI_Offset* const *counts,
               MPI_Offset* const *strides, float* const *buf);
extern int
ncmpi_mput_vars_float_all(int ncid, int num, int *varids,
               MPI_Offset* const *starts, MPI_Offset* const *counts,
               MPI_Offset* const *strides, float* const *buf);

extern int
ncmpi_mput_vars_double(int ncid, int num, int *varids,
               MPI_Offset* const *starts, MPI_Offset* const *counts,
               MPI_Offset* const *strides, double* const *buf);
extern int
ncmpi_mput_vars_double_all(int ncid, int num, int *varids,
               MPI_Offset* const *starts, MPI_Offset* const *counts,
               MPI_Offset* const *strides, double* const *buf);

extern int
ncmpi_mput_vars_longlong(int ncid, int num, int *varids,
               MPI_Offset* const *starts, MPI_Offset* const *counts,
               MPI_Offset* const *strides, long long* const *buf);
extern int
ncmpi_mput_vars_longlong_all(int ncid, int num, int *varids,
               MPI_Offset* const *starts, MPI_Offset* const *counts,
               MPI_Offset* const *strides, long long* const *buf);

extern int
ncmpi_mput_vars_ulonglong(int ncid, int num, int *varids,
               MPI_Offset* const *starts, MPI_Offset* const *counts,
               MPI_Offset* const *strides, unsigned long long* const *buf);
extern int
ncmpi_mput_vars_ulonglong_all(int ncid, int num, int *varids,
               MPI_Offset* const *starts, MPI_Offset* const *counts,
               MPI_Offset* const *strides, unsigned long long* const *buf);

extern int
ncmpi_mput_varm(int ncid, int num, int *varids,
               MPI_Offset* const *starts, MPI_Offset* const *counts,
               MPI_Offset* const *strides, MPI_Offset* const *imaps,
               void* const *buf, const MPI_Offset *bufcounts, const MPI_Datatype datatypes[]);
extern int
ncmpi_mput_varm_all(int ncid, int num, int *varids,
               MPI_Offset* const *starts, MPI_Offset* const *counts,
               MPI_Offset* const *strides, MPI_Offset* const *imaps,
               void* const *buf, const MPI_Offset *bufcounts, const MPI_Datatype datatypes[]);

extern int
ncmpi_mput_varm_text(int ncid, int num, int *varids,
               MPI_Offset* const *starts, MPI_Offset* const *counts,
               MPI_Offset* const *strides, MPI_Offset* const *imaps,
               char* const *buf);
extern int
ncmpi_mput_varm_text_all(int ncid, int num, int *varids,
               MPI_Offset* const *starts, MPI_Offset* const *counts,
               MPI_Offset* const *strides, MPI_Offset* const *imaps,
               char* const *buf);

extern int
ncmpi_mput_varm_schar(int ncid, int num, int *varids,
               MPI_Offset* const *starts, MPI_Offset* const *counts,
               MPI_Offset* const *strides, MPI_Offset* const *imaps,
               signed char* const *buf);
extern int
ncmpi_mput_varm_schar_all(int ncid, int num, int *varids,
               MPI_Offset* const *starts, MPI_Offset* const *counts,
               MPI_Offset* const *strides, MPI_Offset* const *imaps,
               signed char* const *buf);

extern int
ncmpi_mput_varm_uchar(int ncid, int num, int *varids,
               MPI_Offset* const *starts, MPI_Offset* const *counts,
               MPI_Offset* const *strides, MPI_Offset* const *imaps,
               unsigned char* const *buf);
extern int
ncmpi_mput_varm_uchar_all(int ncid, int num, int *varids,
               MPI_Offset* const *starts, MPI_Offset* const *counts,
               MPI_Offset* const *strides, MPI_Offset* const *imaps,
               unsigned char* const *buf);

extern int
ncmpi_mput_varm_short(int ncid, int num, int *varids,
               MPI_Offset* const *starts, MPI_Offset* const *counts,
               MPI_Offset* const *strides, MPI_Offset* const *imaps,
               short* const *buf);
extern int
ncmpi_mput_varm_short_all(int ncid, int num, int *varids,
               MPI_Offset* const *starts, MPI_Offset* const *counts,
               MPI_Offset* const *strides, MPI_Offset* const *imaps,
               short* const *buf);

extern int
ncmpi_mput_varm_ushort(int ncid, int num, int *varids,
               MPI_Offset* const *starts, MPI_Offset* const *counts,
               MPI_Offset* const *strides, MPI_Offset* const *imaps,
               unsigned short* const *buf);
extern int
ncmpi_mput_varm_ushort_all(int ncid, int num, int *varids,
               MPI_Offset* const *starts, MPI_Offset* const *counts,
               MPI_Offset* const *strides, MPI_Offset* const *imaps,
               unsigned short* const *buf);

extern int
ncmpi_mput_varm_int(int ncid, int num, int *varids,
               MPI_Offset* const *starts, MPI_Offset* const *counts,
               MPI_Offset* const *strides, MPI_Offset* const *imaps,
               int* const *buf);
extern int
ncmpi_mput_varm_int_all(int ncid, int num, int *varids,
               MPI_Offset* const *starts, MPI_Offset* const *counts,
               MPI_Offset* const *strides, MPI_Offset* const *imaps,
               int* const *buf);

extern int
ncmpi_mput_varm_uint(int ncid, int num, int *varids,
               MPI_Offset* const *starts, MPI_Offset* const *counts,
               MPI_Offset* const *strides, MPI_Offset* const *imaps,
               unsigned int* const *buf);
extern int
ncmpi_mput_varm_uint_all(int ncid, int num, int *varids,
               MPI_Offset* const *starts, MPI_Offset* const *counts,
               MPI_Offset* const *strides, MPI_Offset* const *imaps,
               unsigned int* const *buf);

extern int
ncmpi_mput_varm_long(int ncid, int num, int *varids,
               MPI_Offset* const *starts, MPI_Offset* const *counts,
               MPI_Offset* const *strides, MPI_Offset* const *imaps,
               long* const *buf);
extern int
ncmpi_mput_varm_long_all(int ncid, int num, int *varids,
               MPI_Offset* const *starts, MPI_Offset* const *counts,
               MPI_Offset* const *strides, MPI_Offset* const *imaps,
               long* const *buf);

extern int
ncmpi_mput_varm_float(int ncid, int num, int *varids,
               MPI_Offset* const *starts, MPI_Offset* const *counts,
               MPI_Offset* const *strides, MPI_Offset* const *imaps,
               float* const *buf);
extern int
ncmpi_mput_varm_float_all(int ncid, int num, int *varids,
               MPI_Offset* const *starts, MPI_Offset* const *counts,
               MPI_Offset* const *strides, MPI_Offset* const *imaps,
               float* const *buf);

extern int
ncmpi_mput_varm_double(int ncid, int num, int *varids,
               MPI_Offset* const *starts, MPI_Offset* const *counts,
               MPI_Offset* const *strides, MPI_Offset* const *imaps,
               double* const *buf);
extern int
ncmpi_mput_varm_double_all(int ncid, int num, int *varids,
               MPI_Offset* const *starts, MPI_Offset* const *counts,
               MPI_Offset* const *strides, MPI_Offset* const *imaps,
               double* const *buf);

extern int
ncmpi_mput_varm_longlong(int ncid, int num, int *varids,
               MPI_Offset* const *starts, MPI_Offset* const *counts,
               MPI_Offset* const *strides, MPI_Offset* const *imaps,
               long long* const *buf);
extern int
ncmpi_mput_varm_longlong_all(int ncid, int num, int *varids,
               MPI_Offset* const *starts, MPI_Offset* const *counts,
               MPI_Offset* const *strides, MPI_Offset* const *imaps,
               long long* const *buf);

extern int
ncmpi_mput_varm_ulonglong(int ncid, int num, int *varids,
               MPI_Offset* const *starts, MPI_Offset* const *counts,
               MPI_Offset* const *strides, MPI_Offset* const *imaps,
               unsigned long long* const *buf);
extern int
ncmpi_mput_varm_ulonglong_all(int ncid, int num, int *varids,
               MPI_Offset* const *starts, MPI_Offset* const *counts,
               MPI_Offset* const *strides, MPI_Offset* const *imaps,
               unsigned long long* const *buf);

extern int
ncmpi_mget_var(int ncid, int num, int *varids, void *bufs[],
               const MPI_Offset *bufcounts, const MPI_Datatype *datatypes);

extern int
ncmpi_mget_var_all(int ncid, int num, int *varids, void *bufs[],
               const MPI_Offset *bufcounts, const MPI_Datatype *datatypes);

extern int
ncmpi_mget_var_text(int ncid, int num, int *varids, char *bufs[]);
extern int
ncmpi_mget_var_text_all(int ncid, int num, int *varids, char *bufs[]);

extern int
ncmpi_mget_var_schar(int ncid, int num, int *varids, signed char *bufs[]);
extern int
ncmpi_mget_var_schar_all(int ncid, int num, int *varids, signed char *bufs[]);

extern int
ncmpi_mget_var_uchar(int ncid, int num, int *varids, unsigned char *bufs[]);
extern int
ncmpi_mget_var_uchar_all(int ncid, int num, int *varids, unsigned char *bufs[]);

extern int
ncmpi_mget_var_short(int ncid, int num, int *varids, short *bufs[]);
extern int
ncmpi_mget_var_short_all(int ncid, int num, int *varids, short *bufs[]);

extern int
ncmpi_mget_var_ushort(int ncid, int num, int *varids, unsigned short *bufs[]);
extern int
ncmpi_mget_var_ushort_all(int ncid, int num, int *varids,
               unsigned short *bufs[]);

extern int
ncmpi_mget_var_int(int ncid, int num, int *varids, int *bufs[]);
extern int
ncmpi_mget_var_int_all(int ncid, int num, int *varids, int *bufs[]);

extern int
ncmpi_mget_var_uint(int ncid, int num, int *varids, unsigned int *bufs[]);
extern int
ncmpi_mget_var_uint_all(int ncid, int num, int *varids, unsigned int *bufs[]);

extern int
ncmpi_mget_var_long(int ncid, int num, int *varids, long *bufs[]);
extern int
ncmpi_mget_var_long_all(int ncid, int num, int *varids, long *bufs[]);

extern int
ncmpi_mget_var_float(int ncid, int num, int *varids, float *bufs[]);
extern int
ncmpi_mget_var_float_all(int ncid, int num, int *varids, float *bufs[]);

extern int
ncmpi_mget_var_double(int ncid, int num, int *varids, double *bufs[]);
extern int
ncmpi_mget_var_double_all(int ncid, int num, int *varids, double *bufs[]);

extern int
ncmpi_mget_var_longlong(int ncid, int num, int *varids, long long *bufs[]);
extern int
ncmpi_mget_var_longlong_all(int ncid, int num, int *varids, long long *bufs[]);

extern int
ncmpi_mget_var_ulonglong(int ncid, int num, int *varids,
               unsigned long long *bufs[]);
extern int
ncmpi_mget_var_ulonglong_all(int ncid, int num, int *varids,
               unsigned long long *bufs[]);

extern int
ncmpi_mget_var1(int ncid, int num, int *varids,
               MPI_Offset* const *starts, void *bufs[],
               const MPI_Offset *bufcounts, const MPI_Datatype *datatypes);
extern int
ncmpi_mget_var1_all(int ncid, int num, int *varids,
               MPI_Offset* const *starts, void *bufs[],
               const MPI_Offset *bufcounts, const MPI_Datatype *datatypes);

extern int
ncmpi_mget_var1_text(int ncid, int num, int *varids,
               MPI_Offset* const *starts, char *bufs[]);
extern int
ncmpi_mget_var1_text_all(int ncid, int num, int *varids,
               MPI_Offset* const *starts, char *bufs[]);

extern int
ncmpi_mget_var1_schar(int ncid, int num, int *varids,
               MPI_Offset* const *starts, signed char *bufs[]);
extern int
ncmpi_mget_var1_schar_all(int ncid, int num, int *varids,
               MPI_Offset* const *starts, signed char *bufs[]);

extern int
ncmpi_mget_var1_uchar(int ncid, int num, int *varids,
               MPI_Offset* const *starts, unsigned char *bufs[]);
extern int
ncmpi_mget_var1_uchar_all(int ncid, int num, int *varids,
               MPI_Offset* const *starts, unsigned char *bufs[]);

extern int
ncmpi_mget_var1_short(int ncid, int num, int *varids,
               MPI_Offset* const *starts, short *bufs[]);
extern int
ncmpi_mget_var1_short_all(int ncid, int num, int *varids,
               MPI_Offset* const *starts, short *bufs[]);

extern int
ncmpi_mget_var1_ushort(int ncid, int num, int *varids,
               MPI_Offset* const *starts, unsigned short *bufs[]);
extern int
ncmpi_mget_var1_ushort_all(int ncid, int num, int *varids,
               MPI_Offset* const *starts, unsigned short *bufs[]);

extern int
ncmpi_mget_var1_int(int ncid, int num, int *varids,
               MPI_Offset* const *starts, int *bufs[]);
extern int
ncmpi_mget_var1_int_all(int ncid, int num, int *varids,
               MPI_Offset* const *starts, int *bufs[]);

extern int
ncmpi_mget_var1_uint(int ncid, int num, int *varids,
               MPI_Offset* const *starts, unsigned int *bufs[]);
extern int
ncmpi_mget_var1_uint_all(int ncid, int num, int *varids,
               MPI_Offset* const *starts, unsigned int *bufs[]);

extern int
ncmpi_mget_var1_long(int ncid, int num, int *varids,
               MPI_Offset* const *starts, long *bufs[]);
extern int
ncmpi_mget_var1_long_all(int ncid, int num, int *varids,
               MPI_Offset* const *starts, long *bufs[]);

extern int
ncmpi_mget_var1_float(int ncid, int num, int *varids,
               MPI_Offset* const *starts, float *bufs[]);
extern int
ncmpi_mget_var1_float_all(int ncid, int num, int *varids,
               MPI_Offset* const *starts, float *bufs[]);

extern int
ncmpi_mget_var1_double(int ncid, int num, int *varids,
               MPI_Offset* const *starts, double *bufs[]);
extern int
ncmpi_mget_var1_double_all(int ncid, int num, int *varids,
               MPI_Offset* const *starts, double *bufs[]);

extern int
ncmpi_mget_var1_longlong(int ncid, int num, int *varids,
               MPI_Offset* const *starts, long long *bufs[]);
extern int
ncmpi_mget_var1_longlong_all(int ncid, int num, int *varids,
               MPI_Offset* const *starts, long long *bufs[]);

extern int
ncmpi_mget_var1_ulonglong(int ncid, int num, int *varids,
               MPI_Offset* const *starts, unsigned long long *bufs[]);
extern int
ncmpi_mget_var1_ulonglong_all(int ncid, int num, int *varids,
               MPI_Offset* const *starts, unsigned long long *bufs[]);


extern int
ncmpi_mget_vara(int ncid, int num, int *varids,
               MPI_Offset* const *starts, MPI_Offset* const *counts,
               void *bufs[], const MPI_Offset *bufcounts, const MPI_Datatype *datatypes);
extern int
ncmpi_mget_vara_all(int ncid, int num, int *varids,
               MPI_Offset* const *starts, MPI_Offset* const *counts,
               void *bufs[], const MPI_Offset *bufcounts, const MPI_Datatype *datatypes);

extern int
ncmpi_mget_vara_text(int ncid, int num, int *varids,
               MPI_Offset* const *starts, MPI_Offset* const *counts,
               char *bufs[]);
extern int
ncmpi_mget_vara_text_all(int ncid, int num, int *varids,
               MPI_Offset* const *starts, MPI_Offset* const *counts,
               char *bufs[]);

extern int
ncmpi_mget_vara_schar(int ncid, int num, int *varids,
               MPI_Offset* const *starts, MPI_Offset* const *counts,
               signed char *bufs[]);
extern int
ncmpi_mget_vara_schar_all(int ncid, int num, int *varids,
               MPI_Offset* const *starts, MPI_Offset* const *counts,
               signed char *bufs[]);

extern int
ncmpi_mget_vara_uchar(int ncid, int num, int *varids,
               MPI_Offset* const *starts, MPI_Offset* const *counts,
               unsigned char *bufs[]);
extern int
ncmpi_mget_vara_uchar_all(int ncid, int num, int *varids,
               MPI_Offset* const *starts, MPI_Offset* const *counts,
               unsigned char *bufs[]);

extern int
ncmpi_mget_vara_short(int ncid, int num, int *varids,
               MPI_Offset* const *starts, MPI_Offset* const *counts,
               short *bufs[]);
extern int
ncmpi_mget_vara_short_all(int ncid, int num, int *varids,
               MPI_Offset* const *starts, MPI_Offset* const *counts,
               short *bufs[]);

extern int
ncmpi_mget_vara_ushort(int ncid, int num, int *varids,
               MPI_Offset* const *starts, MPI_Offset* const *counts,
               unsigned short *bufs[]);
extern int
ncmpi_mget_vara_ushort_all(int ncid, int num, int *varids,
               MPI_Offset* const *starts, MPI_Offset* const *counts,
               unsigned short *bufs[]);

extern int
ncmpi_mget_vara_int(int ncid, int num, int *varids,
               MPI_Offset* const *starts, MPI_Offset* const *counts,
               int *bufs[]);
extern int
ncmpi_mget_vara_int_all(int ncid, int num, int *varids,
               MPI_Offset* const *starts, MPI_Offset* const *counts,
               int *bufs[]);

extern int
ncmpi_mget_vara_uint(int ncid, int num, int *varids,
               MPI_Offset* const *starts, MPI_Offset* const *counts,
               unsigned int *bufs[]);
extern int
ncmpi_mget_vara_uint_all(int ncid, int num, int *varids,
               MPI_Offset* const *starts, MPI_Offset* const *counts,
               unsigned int *bufs[]);

extern int
ncmpi_mget_vara_long(int ncid, int num, int *varids,
               MPI_Offset* const *starts, MPI_Offset* const *counts,
               long *bufs[]);
extern int
ncmpi_mget_vara_long_all(int ncid, int num, int *varids,
               MPI_Offset* const *starts, MPI_Offset* const *counts,
               long *bufs[]);

extern int
ncmpi_mget_vara_float(int ncid, int num, int *varids,
               MPI_Offset* const *starts, MPI_Offset* const *counts,
               float *bufs[]);
extern int
ncmpi_mget_vara_float_all(int ncid, int num, int *varids,
               MPI_Offset* const *starts, MPI_Offset* const *counts,
               float *bufs[]);

extern int
ncmpi_mget_vara_double(int ncid, int num, int *varids,
               MPI_Offset* const *starts, MPI_Offset* const *counts,
               double *bufs[]);
extern int
ncmpi_mget_vara_double_all(int ncid, int num, int *varids,
               MPI_Offset* const *starts, MPI_Offset* const *counts,
               double *bufs[]);

extern int
ncmpi_mget_vara_longlong(int ncid, int num, int *varids,
               MPI_Offset* const *starts, MPI_Offset* const *counts,
               long long *bufs[]);
extern int
ncmpi_mget_vara_longlong_all(int ncid, int num, int *varids,
               MPI_Offset* const *starts, MPI_Offset* const *counts,
               long long *bufs[]);

extern int
ncmpi_mget_vara_ulonglong(int ncid, int num, int *varids,
               MPI_Offset* const *starts, MPI_Offset* const *counts,
               unsigned long long *bufs[]);
extern int
ncmpi_mget_vara_ulonglong_all(int ncid, int num, int *varids,
               MPI_Offset* const *starts, MPI_Offset* const *counts,
               unsigned long long *bufs[]);

extern int
ncmpi_mget_vars(int ncid, int num, int *varids,
               MPI_Offset* const *starts, MPI_Offset* const *counts,
               MPI_Offset* const *strides, void *bufs[],
               const MPI_Offset *bufcounts, const MPI_Datatype *datatypes);
extern int
ncmpi_mget_vars_all(int ncid, int num, int *varids,
               MPI_Offset* const *starts, MPI_Offset* const *counts,
               MPI_Offset* const *strides, void *bufs[],
               const MPI_Offset *bufcounts, const MPI_Datatype *datatypes);

extern int
ncmpi_mget_vars_text(int ncid, int num, int *varids,
               MPI_Offset* const *starts, MPI_Offset* const *counts,
               MPI_Offset* const *strides, char *bufs[]);
extern int
ncmpi_mget_vars_text_all(int ncid, int num, int *varids,
               MPI_Offset* const *starts, MPI_Offset* const *counts,
               MPI_Offset* const *strides, char *bufs[]);

extern int
ncmpi_mget_vars_schar(int ncid, int num, int *varids,
               MPI_Offset* const *starts, MPI_Offset* const *counts,
               MPI_Offset* const *strides, signed char *bufs[]);
extern int
ncmpi_mget_vars_schar_all(int ncid, int num, int *varids,
               MPI_Offset* const *starts, MPI_Offset* const *counts,
               MPI_Offset* const *strides, signed char *bufs[]);

extern int
ncmpi_mget_vars_uchar(int ncid, int num, int *varids,
               MPI_Offset* const *starts, MPI_Offset* const *counts,
               MPI_Offset* const *strides, unsigned char *bufs[]);
extern int
ncmpi_mget_vars_uchar_all(int ncid, int num, int *varids,
               MPI_Offset* const *starts, MPI_Offset* const *counts,
               MPI_Offset* const *strides, unsigned char *bufs[]);

extern int
ncmpi_mget_vars_short(int ncid, int num, int *varids,
               MPI_Offset* const *starts, MPI_Offset* const *counts,
               MPI_Offset* const *strides, short *bufs[]);
extern int
ncmpi_mget_vars_short_all(int ncid, int num, int *varids,
               MPI_Offset* const *starts, MPI_Offset* const *counts,
               MPI_Offset* const *strides, short *bufs[]);

extern int
ncmpi_mget_vars_ushort(int ncid, int num, int *varids,
               MPI_Offset* const *starts, MPI_Offset* const *counts,
               MPI_Offset* const *strides, unsigned short *bufs[]);
extern int
ncmpi_mget_vars_ushort_all(int ncid, int num, int *varids,
               MPI_Offset* const *starts, MPI_Offset* const *counts,
               MPI_Offset* const *strides, unsigned short *bufs[]);

extern int
ncmpi_mget_vars_int(int ncid, int num, int *varids,
               MPI_Offset* const *starts, MPI_Offset* const *counts,
               MPI_Offset* const *strides, int *bufs[]);
extern int
ncmpi_mget_vars_int_all(int ncid, int num, int *varids,
               MPI_Offset* const *starts, MPI_Offset* const *counts,
               MPI_Offset* const *strides, int *bufs[]);

extern int
ncmpi_mget_vars_uint(int ncid, int num, int *varids,
               MPI_Offset* const *starts, MPI_Offset* const *counts,
               MPI_Offset* const *strides, unsigned int *bufs[]);
extern int
ncmpi_mget_vars_uint_all(int ncid, int num, int *varids,
               MPI_Offset* const *starts, MPI_Offset* const *counts,
               MPI_Offset* const *strides, unsigned int *bufs[]);

extern int
ncmpi_mget_vars_long(int ncid, int num, int *varids,
               MPI_Offset* const *starts, MPI_Offset* const *counts,
               MPI_Offset* const *strides, long *bufs[]);
extern int
ncmpi_mget_vars_long_all(int ncid, int num, int *varids,
               MPI_Offset* const *starts, MPI_Offset* const *counts,
               MPI_Offset* const *strides, long *bufs[]);

extern int
ncmpi_mget_vars_float(int ncid, int num, int *varids,
               MPI_Offset* const *starts, MPI_Offset* const *counts,
               MPI_Offset* const *strides, float *bufs[]);
extern int
ncmpi_mget_vars_float_all(int ncid, int num, int *varids,
               MPI_Offset* const *starts, MPI_Offset* const *counts,
               MPI_Offset* const *strides, float *bufs[]);

extern int
ncmpi_mget_vars_double(int ncid, int num, int *varids,
               MPI_Offset* const *starts, MPI_Offset* const *counts,
               MPI_Offset* const *strides, double *bufs[]);
extern int
ncmpi_mget_vars_double_all(int ncid, int num, int *varids,
               MPI_Offset* const *starts, MPI_Offset* const *counts,
               MPI_Offset* const *strides, double *bufs[]);

extern int
ncmpi_mget_vars_longlong(int ncid, int num, int *varids,
               MPI_Offset* const *starts, MPI_Offset* const *counts,
               MPI_Offset* const *strides, long long *bufs[]);
extern int
ncmpi_mget_vars_longlong_all(int ncid, int num, int *varids,
               MPI_Offset* const *starts, MPI_Offset* const *counts,
               MPI_Offset* const *strides, long long *bufs[]);

extern int
ncmpi_mget_vars_ulonglong(int ncid, int num, int *varids,
               MPI_Offset* const *starts, MPI_Offset* const *counts,
               MPI_Offset* const *strides, unsigned long long *bufs[]);
extern int
ncmpi_mget_vars_ulonglong_all(int ncid, int num, int *varids,
               MPI_Offset* const *starts, MPI_Offset* const *counts,
               MPI_Offset* const *strides, unsigned long long *bufs[]);

extern int
ncmpi_mget_varm(int ncid, int num, int *varids,
               MPI_Offset* const *starts, MPI_Offset* const *counts,
               MPI_Offset* const *strides, MPI_Offset* const *imaps,
               void *bufs[], const MPI_Offset *bufcounts, const MPI_Datatype *datatypes);

extern int
ncmpi_mget_varm_all(int ncid, int num, int *varids,
               MPI_Offset* const *starts, MPI_Offset* const *counts,
               MPI_Offset* const *strides, MPI_Offset* const *imaps,
               void *bufs[], const MPI_Offset *bufcounts, const MPI_Datatype *datatypes);

extern int
ncmpi_mget_varm_text(int ncid, int num, int *varids,
               MPI_Offset* const *starts, MPI_Offset* const *counts,
               MPI_Offset* const *strides, MPI_Offset* const *imaps,
               char *bufs[]);
extern int
ncmpi_mget_varm_text_all(int ncid, int num, int *varids,
               MPI_Offset* const *starts, MPI_Offset* const *counts,
               MPI_Offset* const *strides, MPI_Offset* const *imaps,
               char *bufs[]);

extern int
ncmpi_mget_varm_schar(int ncid, int num, int *varids,
               MPI_Offset* const *starts, MPI_Offset* const *counts,
               MPI_Offset* const *strides, MPI_Offset* const *imaps,
               signed char *bufs[]);
extern int
ncmpi_mget_varm_schar_all(int ncid, int num, int *varids,
               MPI_Offset* const *starts, MPI_Offset* const *counts,
               MPI_Offset* const *strides, MPI_Offset* const *imaps,
               signed char *bufs[]);

extern int
ncmpi_mget_varm_uchar(int ncid, int num, int *varids,
               MPI_Offset* const *starts, MPI_Offset* const *counts,
               MPI_Offset* const *strides, MPI_Offset* const *imaps,
               unsigned char *bufs[]);
extern int
ncmpi_mget_varm_uchar_all(int ncid, int num, int *varids,
               MPI_Offset* const *starts, MPI_Offset* const *counts,
               MPI_Offset* const *strides, MPI_Offset* const *imaps,
               unsigned char *bufs[]);

extern int
ncmpi_mget_varm_short(int ncid, int num, int *varids,
               MPI_Offset* const *starts, MPI_Offset* const *counts,
               MPI_Offset* const *strides, MPI_Offset* const *imaps,
               short *bufs[]);
extern int
ncmpi_mget_varm_short_all(int ncid, int num, int *varids,
               MPI_Offset* const *starts, MPI_Offset* const *counts,
               MPI_Offset* const *strides, MPI_Offset* const *imaps,
               short *bufs[]);

extern int
ncmpi_mget_varm_ushort(int ncid, int num, int *varids,
               MPI_Offset* const *starts, MPI_Offset* const *counts,
               MPI_Offset* const *strides, MPI_Offset* const *imaps,
               unsigned short *bufs[]);
extern int
ncmpi_mget_varm_ushort_all(int ncid, int num, int *varids,
               MPI_Offset* const *starts, MPI_Offset* const *counts,
               MPI_Offset* const *strides, MPI_Offset* const *imaps,
               unsigned short *bufs[]);

extern int
ncmpi_mget_varm_int(int ncid, int num, int *varids,
               MPI_Offset* const *starts, MPI_Offset* const *counts,
               MPI_Offset* const *strides, MPI_Offset* const *imaps,
               int *bufs[]);
extern int
ncmpi_mget_varm_int_all(int ncid, int num, int *varids,
               MPI_Offset* const *starts, MPI_Offset* const *counts,
               MPI_Offset* const *strides, MPI_Offset* const *imaps,
               int *bufs[]);

extern int
ncmpi_mget_varm_uint(int ncid, int num, int *varids,
               MPI_Offset* const *starts, MPI_Offset* const *counts,
               MPI_Offset* const *strides, MPI_Offset* const *imaps,
               unsigned int *bufs[]);
extern int
ncmpi_mget_varm_uint_all(int ncid, int num, int *varids,
               MPI_Offset* const *starts, MPI_Offset* const *counts,
               MPI_Offset* const *strides, MPI_Offset* const *imaps,
               unsigned int *bufs[]);

extern int
ncmpi_mget_varm_long(int ncid, int num, int *varids,
               MPI_Offset* const *starts, MPI_Offset* const *counts,
               MPI_Offset* const *strides, MPI_Offset* const *imaps,
               long *bufs[]);
extern int
ncmpi_mget_varm_long_all(int ncid, int num, int *varids,
               MPI_Offset* const *starts, MPI_Offset* const *counts,
               MPI_Offset* const *strides, MPI_Offset* const *imaps,
               long *bufs[]);

extern int
ncmpi_mget_varm_float(int ncid, int num, int *varids,
               MPI_Offset* const *starts, MPI_Offset* const *counts,
               MPI_Offset* const *strides, MPI_Offset* const *imaps,
               float *bufs[]);
extern int
ncmpi_mget_varm_float_all(int ncid, int num, int *varids,
               MPI_Offset* const *starts, MPI_Offset* const *counts,
               MPI_Offset* const *strides, MPI_Offset* const *imaps,
               float *bufs[]);

extern int
ncmpi_mget_varm_double(int ncid, int num, int *varids,
               MPI_Offset* const *starts, MPI_Offset* const *counts,
               MPI_Offset* const *strides, MPI_Offset* const *imaps,
               double *bufs[]);
extern int
ncmpi_mget_varm_double_all(int ncid, int num, int *varids,
               MPI_Offset* const *starts, MPI_Offset* const *counts,
               MPI_Offset* const *strides, MPI_Offset* const *imaps,
               double *bufs[]);

extern int
ncmpi_mget_varm_longlong(int ncid, int num, int *varids,
               MPI_Offset* const *starts, MPI_Offset* const *counts,
               MPI_Offset* const *strides, MPI_Offset* const *imaps,
               long long *bufs[]);
extern int
ncmpi_mget_varm_longlong_all(int ncid, int num, int *varids,
               MPI_Offset* const *starts, MPI_Offset* const *counts,
               MPI_Offset* const *strides, MPI_Offset* const *imaps,
               long long *bufs[]);

extern int
ncmpi_mget_varm_ulonglong(int ncid, int num, int *varids,
               MPI_Offset* const *starts, MPI_Offset* const *counts,
               MPI_Offset* const *strides, MPI_Offset* const *imaps,
               unsigned long long *bufs[]);
extern int
ncmpi_mget_varm_ulonglong_all(int ncid, int num, int *varids,
               MPI_Offset* const *starts, MPI_Offset* const *counts,
               MPI_Offset* const *strides, MPI_Offset* const *imaps,
               unsigned long long *bufs[]);

/* End Skip Prototypes for Fortran binding */

/* End {mput,mget}_var */

/* End: more prototypes to be included for Fortran binding conversion */
/* ################################################################## */

/* End Prototypes */


/* Macros below are defined in serial netcdf (3.5.0) for backwards
 * compatibility with older netcdf code. We aren't concerned with backwards
 * compatibility, so if your code doesn't compile with PnetCDF, maybe
 * this is why:
 *
 *
 *  OLD NAME                 NEW NAME
 *  ----------------------------------
 *  FILL_BYTE       NC_FILL_BYTE
 *  FILL_CHAR       NC_FILL_CHAR
 *  FILL_SHORT      NC_FILL_SHORT
 *  FILL_LONG       NC_FILL_INT
 *  FILL_FLOAT      NC_FILL_FLOAT
 *  FILL_DOUBLE     NC_FILL_DOUBLE
 *
 *  MAX_NC_DIMS     NC_MAX_DIMS
 *  MAX_NC_ATTRS    NC_MAX_ATTRS
 *  MAX_NC_VARS     NC_MAX_VARS
 *  MAX_NC_NAME     NC_MAX_NAME
 *  MAX_VAR_DIMS    NC_MAX_VAR_DIMS
 */

#if defined(__cplusplus)
}
#endif
#endif
