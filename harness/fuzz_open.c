/* fuzz_open - libFuzzer target of C19 part A: bytes -> ncmpi_open -> oracle (open_target.h).
 * MPI is initialised once as a singleton and never finalised.  On an oracle failure the target
 * prints "ORACLE-FAIL: ..." (done by pnc_open_one) and aborts, so libFuzzer keeps the input as
 * a crash- artifact.  Statistics are written to $PNC_OPEN_STATS (JSON) every 2048 inputs and
 * at exit. */
#include "open_target.h"
#include <signal.h>

static struct stats fz_stats;
static const char *fz_stats_path;

static void fz_write_stats(void)
{
    if (!fz_stats_path) return;
    char tmp[600];
    snprintf(tmp, sizeof tmp, "%s.tmp", fz_stats_path);
    FILE *f = fopen(tmp, "w");
    if (!f) return;
    fprintf(f, "{");
    pnc_stats_json(f, &fz_stats);
    fprintf(f, "}\n");
    fclose(f);
    rename(tmp, fz_stats_path);
}

int LLVMFuzzerInitialize(int *argc, char ***argv)
{
    MPI_Init(argc, argv);
    /* OpenMPI installs a backtrace handler for SIGABRT (opal_signal); libFuzzer does not replace an existing handler, so
     * abort() of an oracle failure would end the process without a crash- artifact.  Give SIGABRT back before libFuzzer
     * sets its handlers (it does that after LLVMFuzzerInitialize).  SEGV/BUS/FPE already belong to ASan. */
    signal(SIGABRT, SIG_DFL);
    pnc_target_init();
    fz_stats_path = getenv("PNC_OPEN_STATS");
    atexit(fz_write_stats);
    atexit(pnc_dump_hashes);
    return 0;
}

int LLVMFuzzerTestOneInput(const uint8_t *data, size_t size)
{
    int nf = pnc_open_one(data, size, &fz_stats);
    if ((fz_stats.tried & 2047) == 0) fz_write_stats();
    if (nf) {
        fz_write_stats();
        pnc_dump_hashes();
        abort();
    }
    return 0;
}
