#ifndef SHIM_H
#define SHIM_H
#include <mpi.h>
void shim_init(void);
void shim_begin_script(MPI_Comm k_comm, int match);
void shim_set_step(int n);
void shim_step_end(void);
void shim_end_script(void);
char *shim_script_report(void);   /* malloc'd JSON object */
char *shim_ledger_report(void);   /* malloc'd JSON object */
void shim_arm_fault(int ordinal, int cls, int suppress);
void shim_stop_matching(void);
#endif
