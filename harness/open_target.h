/* open_target.h - shared entry function of the C19 (part A) targets.
 *
 *   int pnc_open_one(const uint8_t *data, size_t size, struct stats *st)
 *
 * bytes -> temp file -> ncmpi_open(MPI_COMM_SELF, NC_NOWRITE) -> oracle.
 * Included by fuzz_open.c (libFuzzer) and enum_open.c (exhaustive enumeration).
 *
 * ORACLE (C19 part A, DESIGN.md section 4/C19 and 2.4)
 *  open fails (status < 0, except the two documented non-fatal warnings NC_ENULLPAD /
 *  NC_EMULTIDEFINE_OMODE): no file id stays registered (ncmpi_inq_files_opened) and the traced
 *  heap (ncmpi_inq_malloc_size, library built with -DPNC_MALLOC_TRACE) is back at its value
 *  before the call.
 *  open succeeds: every inquiry by index succeeds and the metadata are self-consistent
 *  (counts >= 0, unlimdim in [-1,ndims), dim lengths >= 0, var ndims >= 0, dimids in [0,ndims),
 *  nc_type legal for the format, names <= NC_MAX_NAME, inq_varoffset >= header size,
 *  attribute lengths >= 0, ncmpi_get_att of small attributes works); get_var1 of the first and
 *  of the last element of every variable (native type, independent mode) returns NC_NOERR or a
 *  negative netCDF error code; ncmpi_close succeeds; afterwards no id and no traced heap is left.
 *  always: no UBSan diagnostic from instrumented (= library) code while the input is processed
 *  (ASan errors terminate the process and are picked up by the driver); deterministic resource
 *  bound instead of wall time:
 *      MPI_File_read* calls during ncmpi_open <= ceil(size/262144) + 2
 *      peak traced heap during the input      <= 1 MiB + 8*size
 *
 * Per-input peak of the traced heap: ncmpi_inq_malloc_max_size() is a process-wide high-water
 * mark that cannot be reset.  Per input we read cur0 (traced bytes before) and max0/max1 (mark
 * before/after).  If max1 > max0 the mark was set by this input, so its peak is exactly
 * max1 - cur0 and is compared with the bound.  If the mark did not move, the input's peak is
 * <= max0 - cur0, i.e. not above an earlier input's peak; earlier inputs either respected their
 * own bound (<= 1 MiB + 8*max_len) or were reported, so on a tree without reported/excluded
 * resource findings the test is exact up to the 8*(max_len - size) slack.  With an excluded
 * (allowed) resource finding in the same process the blind window is at most the largest
 * allocation that succeeded (capped by ASAN max_allocation_size_mb / RLIMIT_AS); a failed
 * allocation leaves no window, because the trace adds the size of a NULL result to the current
 * total and never removes it (NCI_Free(NULL) returns early), so cur0 follows the mark.  For the
 * same reason the "heap back to its previous value" tests are skipped for an input whose peak
 * already broke the bound (reported as resource_heap instead).
 *
 * Exclusions: environment PNC_OPEN_ALLOW = comma separated list of failure keys ("class" or
 * "class:what"); a matching failure is counted (st->allowed) but is not a failure.
 */
#ifndef OPEN_TARGET_H
#define OPEN_TARGET_H
#include <stdio.h>
#include <stdlib.h>
#include <stdint.h>
#include <stdarg.h>
#include <string.h>
#include <unistd.h>
#include <fcntl.h>
#include <errno.h>
#include <mpi.h>
#include <pnetcdf.h>

#define PNC_HDR_CHUNK 262144          /* PNC_DEFAULT_CHUNKSIZE of ncmpio_NC.h (hint is not honoured on this tree) */
#define PNC_ERRHIST 400
#define PNC_MAXFAIL 8
#define PNC_SMALL_ATT 65536

struct pnc_fail { char key[96]; char detail[200]; };

struct stats {
    uint64_t tried, open_ok, open_warn, open_err;
    uint64_t errhist[PNC_ERRHIST];       /* index = -status of ncmpi_open */
    uint64_t err_other;
    uint64_t past_magic, distinct_past_magic;
    uint64_t byname_miss;                /* attribute found by index but not by its reported name (tolerated) */
    uint64_t reads_ok, reads_err, reads_skipped;
    uint64_t vars_seen, atts_seen, dims_seen;
    uint64_t failures, allowed, skipped[3];
    int64_t max_open_reads, max_peak;
    /* result of the last input */
    int last_status;                     /* status of ncmpi_open */
    int nfail, nallowed;
    struct pnc_fail fail[PNC_MAXFAIL];
    struct pnc_fail allowed_last[PNC_MAXFAIL];
    int64_t last_reads, last_peak;
};

/* ---------------------------------------------------------------- PMPI interposition */
static long pnc_read_calls;
int MPI_File_read_at(MPI_File fh, MPI_Offset off, void *buf, int count, MPI_Datatype dt, MPI_Status *st)
{ pnc_read_calls++; return PMPI_File_read_at(fh, off, buf, count, dt, st); }
int MPI_File_read_at_all(MPI_File fh, MPI_Offset off, void *buf, int count, MPI_Datatype dt, MPI_Status *st)
{ pnc_read_calls++; return PMPI_File_read_at_all(fh, off, buf, count, dt, st); }
int MPI_File_read(MPI_File fh, void *buf, int count, MPI_Datatype dt, MPI_Status *st)
{ pnc_read_calls++; return PMPI_File_read(fh, buf, count, dt, st); }
int MPI_File_read_all(MPI_File fh, void *buf, int count, MPI_Datatype dt, MPI_Status *st)
{ pnc_read_calls++; return PMPI_File_read_all(fh, buf, count, dt, st); }

/* ---------------------------------------------------------------- UBSan monitor */
static long pnc_ub_count;
#define PNC_UB_SITES 8
static char pnc_ub_site[PNC_UB_SITES][120];     /* distinct UB sites reported while the current input is processed */
static int pnc_ub_nsite;
#if defined(__clang__)
extern void __ubsan_get_current_report_data(const char **kind, const char **msg, const char **file,
                                            unsigned *line, unsigned *col, char **addr) __attribute__((weak));
/* strong definition overrides the weak default of the UBSan runtime; called once per diagnostic.
 * Only instrumented code reports: the library and this harness (OpenMPI is not instrumented). */
void __ubsan_on_report(void)
{
    const char *kind = "?", *msg = "?", *file = "?";
    unsigned line = 0, col = 0;
    char *addr = NULL;
    char site[120];
    if (__ubsan_get_current_report_data)
        __ubsan_get_current_report_data(&kind, &msg, &file, &line, &col, &addr);
    if (file && (strstr(file, "open_target.h") || strstr(file, "fuzz_open.c") || strstr(file, "enum_open.c")))
        return;                          /* harness bug, printed by UBSan anyway; not a library verdict */
    pnc_ub_count++;
    const char *b = file ? strrchr(file, '/') : NULL;
    snprintf(site, sizeof site, "%s at %s:%u", kind ? kind : "?", b ? b + 1 : (file ? file : "?"), line);
    for (int i = 0; i < pnc_ub_nsite; i++)
        if (!strcmp(pnc_ub_site[i], site)) return;
    if (pnc_ub_nsite < PNC_UB_SITES) strcpy(pnc_ub_site[pnc_ub_nsite++], site);
}
#endif

/* ---------------------------------------------------------------- helpers */
static char pnc_tmp_path[512];
static const char *pnc_allow;
static int64_t pnc_alloc_cap = (int64_t)16 << 20;   /* PNC_ALLOC_CAP_MB: must equal the allocator cap the driver configured */
static void pnc_skip_init(void);

static void pnc_target_init(void)
{
    const char *t = getenv("TMPDIR");
    if (!t || !*t) t = "/tmp";
    snprintf(pnc_tmp_path, sizeof pnc_tmp_path, "%s/pncfz.%ld.nc", t, (long)getpid());
    pnc_allow = getenv("PNC_OPEN_ALLOW");
    if ((t = getenv("PNC_ALLOC_CAP_MB")) && *t) pnc_alloc_cap = (int64_t)atol(t) << 20;
    pnc_skip_init();
}

static int pnc_is_allowed(const char *key)
{
    const char *p = pnc_allow;
    size_t kl = strlen(key);
    while (p && *p) {
        const char *e = strchr(p, ',');
        size_t n = e ? (size_t)(e - p) : strlen(p);
        if (n && n <= kl && memcmp(p, key, n) == 0 && (key[n] == 0 || key[n] == ':'))
            return 1;
        p = e ? e + 1 : NULL;
    }
    return 0;
}

static int pnc_excused_now;      /* set around a pnc_fail() call whose excess is explained by the header's declared counts */
#if defined(__GNUC__)
__attribute__((format(printf, 4, 5)))
#endif
static void pnc_fail(struct stats *st, const char *cls, const char *what, const char *fmt, ...)
{
    struct pnc_fail f;
    va_list ap;
    snprintf(f.key, sizeof f.key, "%s:%s", cls, what);
    va_start(ap, fmt);
    vsnprintf(f.detail, sizeof f.detail, fmt, ap);
    va_end(ap);
    if (pnc_is_allowed(f.key) || pnc_excused_now) {
        st->allowed++;
        if (st->nallowed < PNC_MAXFAIL) st->allowed_last[st->nallowed++] = f;
        return;
    }
    if (st->nfail < PNC_MAXFAIL) st->fail[st->nfail++] = f;
}

static uint64_t pnc_hash(const uint8_t *d, size_t n)
{
    uint64_t h = 1469598103934665603ULL;
    for (size_t i = 0; i < n; i++) { h ^= d[i]; h *= 1099511628211ULL; }
    return h ? h : 1;
}

/* open-addressing set of 64-bit hashes (distinct non-trivial inputs) */
static uint64_t *pnc_set; static size_t pnc_set_cap, pnc_set_n;
static int pnc_set_add(uint64_t h)
{
    if (pnc_set_n * 2 >= pnc_set_cap) {
        size_t nc = pnc_set_cap ? pnc_set_cap * 2 : (1u << 16);
        uint64_t *ns = (uint64_t *)calloc(nc, sizeof *ns);
        if (!ns) return 0;
        for (size_t i = 0; i < pnc_set_cap; i++)
            if (pnc_set[i]) { size_t j = pnc_set[i] & (nc - 1); while (ns[j]) j = (j + 1) & (nc - 1); ns[j] = pnc_set[i]; }
        free(pnc_set); pnc_set = ns; pnc_set_cap = nc;
    }
    size_t j = h & (pnc_set_cap - 1);
    while (pnc_set[j]) { if (pnc_set[j] == h) return 0; j = (j + 1) & (pnc_set_cap - 1); }
    pnc_set[j] = h; pnc_set_n++;
    return 1;
}

/* $PNC_OPEN_HASHES: append the hashes of the distinct non-trivial inputs of this process (uint64 array) */
static void pnc_dump_hashes(void)
{
    const char *p = getenv("PNC_OPEN_HASHES");
    if (!p || !*p || !pnc_set) return;
    FILE *f = fopen(p, "ab");
    if (!f) return;
    for (size_t i = 0; i < pnc_set_cap; i++) if (pnc_set[i]) fwrite(&pnc_set[i], sizeof(uint64_t), 1, f);
    fclose(f);
}

/* the parser reaches the dimension list: valid magic/version and the numrecs field is inside the file */
static int pnc_past_magic(const uint8_t *d, size_t n)
{
    if (n < 8 || memcmp(d, "CDF", 3)) return 0;
    if (d[3] == 1 || d[3] == 2) return 1;
    return d[3] == 5 && n >= 12;
}


/* ---------------------------------------------------------------- named exclusions by input filter
 * Some confirmed findings end the process (NULL store, heap overflow, FPE), so "count and go on" is not possible.
 * To keep enumerating / fuzzing past them the driver sets
 *     PNC_OPEN_SKIP="ndims=<T>,att_nelems=<T>,neg64=1"
 * and inputs that a tolerant walk over the header (same zero fill past EOF as the library) places in one of these
 * classes are NOT given to the library; they are counted in st->skipped_*:
 *   ndims      a variable declares ndims >= T        (ncmpio_new_NC_var does not check its NCI_Calloc results)
 *   att_nelems an attribute declares nelems >= T     (CDF-5: nelems*xsz overflows / is negative in x_len_NC_attrV and
 *                                                     hdr_get_NC_attrV -> heap overflow / NULL store)
 *   neg64      CDF-5 numrecs or a dimension length >= 2^63 (accepted as a negative MPI_Offset -> FPE, negative lengths)
 * The walk is a filter heuristic, not an oracle: where it disagrees with the library the input is either evaluated
 * (and may end the process, which the drivers survive) or skipped (and counted). */
struct pnc_scan {
    uint64_t max_ndims, max_att_nelems; int neg64;
    /* what the header's own count fields declare (named exclusion "count_fields_trusted", see pnc_open_one):
     * decl_single = largest single allocation request, decl_alloc = generous total (8x the pointer arrays, 1x attribute
     * values, 32 bytes per declared variable dimension), decl_read = bytes the parser will consume for declared
     * attribute values and dimids */
    uint64_t decl_single, decl_alloc, decl_read;
};
static uint64_t pnc_skip_ndims_t, pnc_skip_att_t; static int pnc_skip_neg64, pnc_skip_on, pnc_excuse_on;
#define PNC_SAT ((uint64_t)INT64_MAX)
static void pnc_decl(struct pnc_scan *sc, uint64_t single, uint64_t total, uint64_t rd)
{
    if (single > sc->decl_single) sc->decl_single = single;
    sc->decl_alloc = (total >= PNC_SAT || sc->decl_alloc + total >= PNC_SAT) ? PNC_SAT : sc->decl_alloc + total;
    sc->decl_read = (rd >= PNC_SAT || sc->decl_read + rd >= PNC_SAT) ? PNC_SAT : sc->decl_read + rd;
}
static void pnc_decl_list(struct pnc_scan *sc, uint64_t n)
{
    /* NCI_Calloc(PNETCDF_RNDUP(n, 64), sizeof(pointer)); the int round-up overflows for n > INT_MAX-63 */
    if (n > 0x7fffffffu - 63) pnc_decl(sc, PNC_SAT, PNC_SAT, 0);
    else pnc_decl(sc, (n + 63) / 64 * 64 * 8, (n + 63) / 64 * 64 * 64, 0);
}

static uint64_t pnc_rd(const uint8_t *d, size_t n, uint64_t pos, int w)
{
    uint64_t v = 0;
    for (int i = 0; i < w; i++) v = (v << 8) | (pos + (uint64_t)i < n ? d[pos + (uint64_t)i] : 0);
    return v;
}
static int pnc_scan_atts(const uint8_t *d, size_t n, uint64_t *pos, int w, int maxtype, uint64_t lim, struct pnc_scan *sc)
{
    static const int tsz[12] = {0, 1, 1, 2, 4, 4, 8, 1, 2, 4, 8, 8};
    uint64_t tag = pnc_rd(d, n, *pos, 4); *pos += 4;
    uint64_t na = pnc_rd(d, n, *pos, w); *pos += (uint64_t)w;
    if (na > 0x7fffffff) return -1;
    if (na && tag != 12) return -1;
    if (na) pnc_decl_list(sc, na);
    for (uint64_t a = 0; a < na; a++) {
        if (*pos > lim) return -1;                     /* far past EOF: zero nc_type -> NC_EBADTYPE */
        uint64_t nl = pnc_rd(d, n, *pos, w); *pos += (uint64_t)w;
        if (nl > NC_MAX_NAME) return -1;
        *pos += (nl + 3) / 4 * 4;
        uint64_t t = pnc_rd(d, n, *pos, 4); *pos += 4;
        if (t < 1 || t > (uint64_t)maxtype) return -1;
        uint64_t ne = pnc_rd(d, n, *pos, w); *pos += (uint64_t)w;
        if (ne > sc->max_att_nelems) sc->max_att_nelems = ne;
        if (ne >> 63) return -1;                       /* negative nelems: nothing allocated (skip class att_nelems) */
        if (ne > ((uint64_t)1 << 40)) { pnc_decl(sc, PNC_SAT, PNC_SAT, 0); return -1; }   /* allocation fails */
        pnc_decl(sc, (ne * (uint64_t)tsz[t] + 3) / 4 * 4, (ne * (uint64_t)tsz[t] + 3) / 4 * 4, (ne * (uint64_t)tsz[t] + 3) / 4 * 4);
        *pos += (ne * (uint64_t)tsz[t] + 3) / 4 * 4;
    }
    return 0;
}
static void pnc_scan(const uint8_t *d, size_t n, struct pnc_scan *sc)
{
    memset(sc, 0, sizeof *sc);
    if (n < 8 || memcmp(d, "CDF", 3) || (d[3] != 1 && d[3] != 2 && d[3] != 5)) return;
    int w = d[3] == 5 ? 8 : 4, ow = d[3] == 1 ? 4 : 8, maxtype = d[3] == 5 ? 11 : 6;
    uint64_t pos = 4, lim = (uint64_t)n + 64;
    if (w == 8 && (pnc_rd(d, n, pos, 8) >> 63)) sc->neg64 = 1;
    pos += (uint64_t)w;
    uint64_t tag = pnc_rd(d, n, pos, 4); pos += 4;
    uint64_t nd = pnc_rd(d, n, pos, w); pos += (uint64_t)w;
    if (nd > 0x7fffffff) return;
    if (nd && tag != 10) return;
    if (nd) pnc_decl_list(sc, nd);
    for (uint64_t i = 0; i < nd; i++) {
        if (pos > lim) return;                         /* second all-zero dimension -> NC_EUNLIMIT */
        uint64_t nl = pnc_rd(d, n, pos, w); pos += (uint64_t)w;
        if (nl > NC_MAX_NAME) return;
        pos += (nl + 3) / 4 * 4;
        if (w == 8 && (pnc_rd(d, n, pos, 8) >> 63)) sc->neg64 = 1;
        pos += (uint64_t)w;
    }
    if (pnc_scan_atts(d, n, &pos, w, maxtype, lim, sc)) return;
    tag = pnc_rd(d, n, pos, 4); pos += 4;
    uint64_t nv = pnc_rd(d, n, pos, w); pos += (uint64_t)w;
    if (nv > 0x7fffffff) return;
    if (nv && tag != 11) return;
    if (nv) pnc_decl_list(sc, nv);
    for (uint64_t i = 0; i < nv; i++) {
        if (pos > lim) return;
        uint64_t nl = pnc_rd(d, n, pos, w); pos += (uint64_t)w;
        if (nl > NC_MAX_NAME) return;
        pos += (nl + 3) / 4 * 4;
        uint64_t k = pnc_rd(d, n, pos, w); pos += (uint64_t)w;
        if (k > 0x7fffffff) return;
        if (k > sc->max_ndims) sc->max_ndims = k;
        pnc_decl(sc, k * 8, k * 32, k * (uint64_t)w);  /* shape[], dsizes[], dimids[] of ncmpio_new_NC_var + dispatcher copy */
        if (k > 65536 && nd == 0) return;              /* first dimid is out of range */
        pos += k * (uint64_t)w;
        if (pnc_scan_atts(d, n, &pos, w, maxtype, lim, sc)) return;
        uint64_t t = pnc_rd(d, n, pos, 4);
        if (t < 1 || t > (uint64_t)maxtype) return;
        pos += 4 + (uint64_t)w + (uint64_t)ow;
    }
}
static void pnc_skip_init(void)
{
    const char *e = getenv("PNC_OPEN_EXCUSE_DECLARED"), *q;
    pnc_excuse_on = (e && *e == '1');
    e = getenv("PNC_OPEN_SKIP");
    if (!e || !*e) return;
    pnc_skip_on = 1;
    pnc_skip_ndims_t = pnc_skip_att_t = UINT64_MAX;
    if ((q = strstr(e, "ndims="))) pnc_skip_ndims_t = strtoull(q + 6, NULL, 10);
    if ((q = strstr(e, "att_nelems="))) pnc_skip_att_t = strtoull(q + 11, NULL, 10);
    if ((q = strstr(e, "neg64="))) pnc_skip_neg64 = atoi(q + 6);
}

static int pnc_write_file(const uint8_t *data, size_t size)
{
    int fd = open(pnc_tmp_path, O_WRONLY | O_CREAT | O_TRUNC, 0600);
    if (fd < 0) return -1;
    size_t off = 0;
    while (off < size) {
        ssize_t w = write(fd, data + off, size - off);
        if (w <= 0) { if (errno == EINTR) continue; close(fd); return -1; }
        off += (size_t)w;
    }
    return close(fd);
}

static int pnc_type_legal(int fmt, int t)
{
    return t >= NC_BYTE && t <= (fmt == NC_FORMAT_CDF5 ? NC_UINT64 : NC_DOUBLE);
}

static int pnc_get1(int ncid, int varid, int xtype, const MPI_Offset *idx)
{
    union { signed char sc; char c; short s; int i; float f; double d; unsigned char uc; unsigned short us;
            unsigned u; long long ll; unsigned long long ull; } v;
    switch (xtype) {
    case NC_BYTE:   return ncmpi_get_var1_schar(ncid, varid, idx, &v.sc);
    case NC_CHAR:   return ncmpi_get_var1_text(ncid, varid, idx, &v.c);
    case NC_SHORT:  return ncmpi_get_var1_short(ncid, varid, idx, &v.s);
    case NC_INT:    return ncmpi_get_var1_int(ncid, varid, idx, &v.i);
    case NC_FLOAT:  return ncmpi_get_var1_float(ncid, varid, idx, &v.f);
    case NC_DOUBLE: return ncmpi_get_var1_double(ncid, varid, idx, &v.d);
    case NC_UBYTE:  return ncmpi_get_var1_uchar(ncid, varid, idx, &v.uc);
    case NC_USHORT: return ncmpi_get_var1_ushort(ncid, varid, idx, &v.us);
    case NC_UINT:   return ncmpi_get_var1_uint(ncid, varid, idx, &v.u);
    case NC_INT64:  return ncmpi_get_var1_longlong(ncid, varid, idx, &v.ll);
    case NC_UINT64: return ncmpi_get_var1_ulonglong(ncid, varid, idx, &v.ull);
    }
    return NC_EBADTYPE;
}

/* attributes of one variable (or NC_GLOBAL) */
static void pnc_check_atts(struct stats *st, int ncid, int varid, int natts, int fmt)
{
    char name[NC_MAX_NAME + 64];
    for (int a = 0; a < natts; a++) {
        int err = ncmpi_inq_attname(ncid, varid, a, name);
        st->atts_seen++;
        if (err != NC_NOERR) { pnc_fail(st, "inq_failed", "inq_attname", "var %d att %d: %d", varid, a, err); continue; }
        name[sizeof name - 1] = 0;
        if (strlen(name) > NC_MAX_NAME) pnc_fail(st, "inconsistent", "attname_too_long", "var %d att %d len %zu", varid, a, strlen(name));
        nc_type t = 0; MPI_Offset len = -1;
        err = ncmpi_inq_att(ncid, varid, name, &t, &len);
        if (err == NC_ENOTATT || err == NC_EBADNAME) {
            /* a name taken from a malformed file (empty, embedded NUL) need not be usable as a key: clean error, tolerated */
            st->byname_miss++;
            continue;
        }
        if (err != NC_NOERR) { pnc_fail(st, "inq_failed", "inq_att", "var %d att %d: %d", varid, a, err); continue; }
        if (!pnc_type_legal(fmt, (int)t)) pnc_fail(st, "inconsistent", "att_type", "var %d att %d type %d fmt %d", varid, a, (int)t, fmt);
        if (len < 0) { pnc_fail(st, "inconsistent", "att_len_negative", "var %d att %d len %lld", varid, a, (long long)len); continue; }
        if (len <= PNC_SMALL_ATT / 8) {
            void *buf = malloc((size_t)len * 8 + 8);
            if (buf) {
                err = ncmpi_get_att(ncid, varid, name, buf);
                if (err != NC_NOERR) pnc_fail(st, "inq_failed", "get_att", "var %d att %d len %lld: %d", varid, a, (long long)len, err);
                free(buf);
            }
        }
    }
}

static void pnc_check_open_file(struct stats *st, int ncid, size_t size)
{
    int err, ndims = -1, nvars = -1, ngatts = -1, unlim = -2, fmt = 0;
    MPI_Offset hsize = -1, hext = -1, recsize = -1;
    char name[NC_MAX_NAME + 64];
    (void)size;

    if ((err = ncmpi_inq(ncid, &ndims, &nvars, &ngatts, &unlim)) != NC_NOERR) { pnc_fail(st, "inq_failed", "inq", "%d", err); return; }
    if ((err = ncmpi_inq_format(ncid, &fmt)) != NC_NOERR) { pnc_fail(st, "inq_failed", "inq_format", "%d", err); return; }
    if (fmt != NC_FORMAT_CLASSIC && fmt != NC_FORMAT_CDF2 && fmt != NC_FORMAT_CDF5) pnc_fail(st, "inconsistent", "format", "%d", fmt);
    if (ndims < 0 || nvars < 0 || ngatts < 0) { pnc_fail(st, "inconsistent", "negative_count", "ndims %d nvars %d ngatts %d", ndims, nvars, ngatts); return; }
    if (unlim < -1 || unlim >= ndims) pnc_fail(st, "inconsistent", "unlimdim_range", "unlimdim %d ndims %d", unlim, ndims);
    if ((err = ncmpi_inq_header_size(ncid, &hsize)) != NC_NOERR) pnc_fail(st, "inq_failed", "inq_header_size", "%d", err);
    if ((err = ncmpi_inq_header_extent(ncid, &hext)) != NC_NOERR) pnc_fail(st, "inq_failed", "inq_header_extent", "%d", err);
    /* the extent is the begin of the first variable; the library leaves it 0 when a file has no variable */
    if (hsize <= 0 || (nvars > 0 && hext < hsize)) pnc_fail(st, "inconsistent", "header_size", "size %lld extent %lld nvars %d", (long long)hsize, (long long)hext, nvars);
    if ((err = ncmpi_inq_recsize(ncid, &recsize)) != NC_NOERR) pnc_fail(st, "inq_failed", "inq_recsize", "%d", err);
    else if (recsize < 0) pnc_fail(st, "inconsistent", "recsize_negative", "%lld", (long long)recsize);

    MPI_Offset *dimlen = (MPI_Offset *)calloc((size_t)ndims + 1, sizeof *dimlen);
    if (!dimlen) return;
    for (int d = 0; d < ndims; d++) {
        dimlen[d] = -1;
        st->dims_seen++;
        err = ncmpi_inq_dim(ncid, d, name, &dimlen[d]);
        if (err != NC_NOERR) { pnc_fail(st, "inq_failed", "inq_dim", "dim %d: %d", d, err); continue; }
        name[sizeof name - 1] = 0;
        if (strlen(name) > NC_MAX_NAME) pnc_fail(st, "inconsistent", "dimname_too_long", "dim %d len %zu", d, strlen(name));
        if (dimlen[d] < 0) pnc_fail(st, "inconsistent", d == unlim ? "numrecs_negative" : "dimlen_negative", "dim %d length %lld", d, (long long)dimlen[d]);
    }
    pnc_check_atts(st, ncid, NC_GLOBAL, ngatts, fmt);

    int indep = 0;
    for (int v = 0; v < nvars && st->nfail < PNC_MAXFAIL; v++) {
        int vnd = -1, vna = -1; nc_type xt = 0;
        st->vars_seen++;
        err = ncmpi_inq_varndims(ncid, v, &vnd);
        if (err != NC_NOERR) { pnc_fail(st, "inq_failed", "inq_varndims", "var %d: %d", v, err); continue; }
        if (vnd < 0) { pnc_fail(st, "inconsistent", "var_ndims_negative", "var %d ndims %d", v, vnd); continue; }
        int *dimids = (int *)malloc(((size_t)vnd + 1) * sizeof(int));
        MPI_Offset *idx = (MPI_Offset *)calloc((size_t)vnd + 1, sizeof *idx);
        if (!dimids || !idx) { free(dimids); free(idx); continue; }
        err = ncmpi_inq_var(ncid, v, name, &xt, &vnd, dimids, &vna);
        if (err != NC_NOERR) { pnc_fail(st, "inq_failed", "inq_var", "var %d: %d", v, err); free(dimids); free(idx); continue; }
        name[sizeof name - 1] = 0;
        if (strlen(name) > NC_MAX_NAME) pnc_fail(st, "inconsistent", "varname_too_long", "var %d len %zu", v, strlen(name));
        if (!pnc_type_legal(fmt, (int)xt)) pnc_fail(st, "inconsistent", "var_type", "var %d type %d fmt %d", v, (int)xt, fmt);
        if (vna < 0) pnc_fail(st, "inconsistent", "var_natts_negative", "var %d natts %d", v, vna);
        int ok = pnc_type_legal(fmt, (int)xt), empty = 0;
        for (int k = 0; k < vnd; k++) {
            if (dimids[k] < 0 || dimids[k] >= ndims) { pnc_fail(st, "inconsistent", "dimid_range", "var %d dimid[%d]=%d ndims %d", v, k, dimids[k], ndims); ok = 0; break; }
            if (dimlen[dimids[k]] < 0) ok = 0;
            if (dimlen[dimids[k]] == 0) empty = 1;
        }
        MPI_Offset voff = -1;
        err = ncmpi_inq_varoffset(ncid, v, &voff);
        if (err != NC_NOERR) pnc_fail(st, "inq_failed", "inq_varoffset", "var %d: %d", v, err);
        else if (voff < hsize) pnc_fail(st, "inconsistent", "varoffset_in_header", "var %d begin %lld header %lld", v, (long long)voff, (long long)hsize);
        if (vna > 0) pnc_check_atts(st, ncid, v, vna, fmt);
        if (ok && !empty) {
            if (!indep) {
                err = ncmpi_begin_indep_data(ncid);
                if (err != NC_NOERR) pnc_fail(st, "inq_failed", "begin_indep_data", "%d", err);
                indep = 1;
            }
            for (int pass = 0; pass < 2; pass++) {
                for (int k = 0; k < vnd; k++) idx[k] = pass ? dimlen[dimids[k]] - 1 : 0;
                err = pnc_get1(ncid, v, (int)xt, idx);
                if (err > 0) pnc_fail(st, "bad_status", "get_var1", "var %d %s element: status %d", v, pass ? "last" : "first", err);
                else if (err == NC_NOERR) st->reads_ok++;
                else st->reads_err++;
            }
        } else
            st->reads_skipped++;
        free(dimids); free(idx);
    }
    free(dimlen);
}

/* returns the number of (not allowed) oracle failures of this input; details in st->fail[] */
static int pnc_open_one(const uint8_t *data, size_t size, struct stats *st)
{
    int ncid = -1, nopen = -1, err;
    MPI_Offset cur0 = 0, cur1 = 0, max0 = 0, max1 = 0;

    st->nfail = st->nallowed = 0;
    struct pnc_scan sc;
    memset(&sc, 0, sizeof sc);
    if (pnc_skip_on || pnc_excuse_on) pnc_scan(data, size, &sc);
    if (pnc_skip_on) {                   /* named exclusions by input filter: not evaluated, counted */
        int why = sc.max_ndims >= pnc_skip_ndims_t ? 0 : sc.max_att_nelems >= pnc_skip_att_t ? 1 : (pnc_skip_neg64 && sc.neg64) ? 2 : -1;
        if (why >= 0) {
            st->skipped[why]++;
            st->last_status = 1;
            return 0;
        }
    }
    st->tried++;
    if (pnc_past_magic(data, size)) {
        st->past_magic++;
        if (pnc_set_add(pnc_hash(data, size))) st->distinct_past_magic++;
    }
    if (pnc_write_file(data, size) != 0) {
        fprintf(stderr, "HARNESS-ERROR: cannot write %s: %s\n", pnc_tmp_path, strerror(errno));
        exit(3);
    }
    ncmpi_inq_malloc_size(&cur0);
    ncmpi_inq_malloc_max_size(&max0);
    long ub0 = pnc_ub_count;
    pnc_ub_nsite = 0;
    long r0 = pnc_read_calls;

    err = ncmpi_open(MPI_COMM_SELF, pnc_tmp_path, NC_NOWRITE, MPI_INFO_NULL, &ncid);
    long open_reads = pnc_read_calls - r0;
    st->last_status = err;
    st->last_reads = open_reads;
    if (open_reads > st->max_open_reads) st->max_open_reads = open_reads;

    int usable = (err == NC_NOERR || err == NC_ENULLPAD || err == NC_EMULTIDEFINE_OMODE);
    if (err == NC_NOERR) st->open_ok++;
    else if (usable) st->open_warn++;
    else {
        st->open_err++;
        if (err < 0 && -err < PNC_ERRHIST) st->errhist[-err]++; else st->err_other++;
        if (err > 0) pnc_fail(st, "bad_status", "open", "ncmpi_open returned %d", err);
    }
    if (usable) {
        pnc_check_open_file(st, ncid, size);
        err = ncmpi_close(ncid);
        if (err != NC_NOERR) pnc_fail(st, "close_failed", "close", "ncmpi_close returned %d", err);
    }

    /* resource bounds.  Named exclusion "count_fields_trusted" (PNC_OPEN_EXCUSE_DECLARED=1): the known finding is that list
     * nelems, attribute nelems and variable ndims are used as allocation sizes / loop bounds without relating them to the
     * file size (and hdr_fetch zero-fills past EOF).  An excess over the bounds is excused - counted, not reported - only to
     * the extent that these count fields of THIS input declare it; anything beyond is still a failure. */
    long bound_reads = (long)((size + PNC_HDR_CHUNK - 1) / PNC_HDR_CHUNK) + 2;
    if (open_reads > bound_reads) {
        uint64_t ex = pnc_excuse_on ? sc.decl_read / (PNC_HDR_CHUNK - 16) + 2 : 0;
        pnc_excused_now = pnc_excuse_on && (uint64_t)(open_reads - bound_reads) <= ex;
        pnc_fail(st, "resource", "header_reads", "%ld MPI_File_read calls in ncmpi_open of a %zu-byte file (bound %ld; declared by count fields: %llu bytes)",
                 open_reads, size, bound_reads, (unsigned long long)sc.decl_read);
        pnc_excused_now = 0;
    }
    ncmpi_inq_malloc_max_size(&max1);
    ncmpi_inq_malloc_size(&cur1);
    int64_t bound_heap = (int64_t)(1 << 20) + 8 * (int64_t)size;
    int64_t peak = (max1 > max0) ? (int64_t)(max1 - cur0) : -1;      /* -1: not above an earlier input's peak */
    st->last_peak = peak;
    if (peak > st->max_peak) st->max_peak = peak;
    int heap_broken = 0;
    int64_t left = (int64_t)((uint64_t)cur1 - (uint64_t)cur0);
    if (peak > bound_heap) {
        heap_broken = 1;
        pnc_excused_now = pnc_excuse_on && (uint64_t)(peak - bound_heap) <= sc.decl_alloc;
        pnc_fail(st, "resource", "heap", "peak traced heap %lld bytes for a %zu-byte file (bound %lld; declared by count fields: %llu)",
                 (long long)peak, size, (long long)bound_heap, (unsigned long long)sc.decl_alloc);
        pnc_excused_now = 0;
    } else if (bound_heap < pnc_alloc_cap && (left < 0 || left > pnc_alloc_cap)) {
        /* An allocation request above the harness cap (ASAN max_allocation_size_mb / RLIMIT_AS) returned NULL.  The
         * malloc trace books the requested size (modulo 2^64) for the NULL pointer and never releases it, so the
         * traced total moved by more than the cap, or wrapped.  The request itself breaks the heap bound. */
        heap_broken = 1;
        pnc_excused_now = pnc_excuse_on && sc.decl_single > (uint64_t)pnc_alloc_cap;
        pnc_fail(st, "resource", "heap", "an allocation above the %lld-byte cap was requested for a %zu-byte file (traced total moved by %lld; bound %lld; largest declared request %llu)",
                 (long long)pnc_alloc_cap, size, (long long)left, (long long)bound_heap, (unsigned long long)sc.decl_single);
        pnc_excused_now = 0;
    }
    /* nothing left behind */
    nopen = -1;
    ncmpi_inq_files_opened(&nopen, NULL);
    if (nopen != 0) {
        pnc_fail(st, usable ? "close_leaks_id" : "open_leaks_id", "files_opened", "%d file id(s) still registered, open status %d", nopen, st->last_status);
        int ids[64], n = 0;
        if (nopen > 0 && nopen <= 64 && ncmpi_inq_files_opened(&n, ids) == NC_NOERR)
            for (int i = 0; i < n; i++) ncmpi_close(ids[i]);           /* best effort: keep later inputs independent */
    }
    if (!heap_broken && cur1 != cur0)
        pnc_fail(st, usable ? "close_leaks_heap" : "open_leaks_heap", "malloc_size", "%lld traced bytes not freed, open status %d",
                 (long long)(cur1 - cur0), st->last_status);
    for (int i = 0; i < pnc_ub_nsite; i++)
        pnc_fail(st, "ub", pnc_ub_site[i], "UBSan diagnostic in library code: %s (%ld diagnostic(s) for this input)", pnc_ub_site[i], pnc_ub_count - ub0);
    pnc_ub_nsite = 0;

    unlink(pnc_tmp_path);
    for (int i = 0; i < st->nfail; i++)
        fprintf(stderr, "ORACLE-FAIL: %s | %s | open_status=%d size=%zu\n", st->fail[i].key, st->fail[i].detail, st->last_status, size);
    st->failures += (uint64_t)st->nfail;
    return st->nfail;
}

static void pnc_stats_json(FILE *f, const struct stats *st)
{
    fprintf(f, "\"tried\":%llu,\"open_ok\":%llu,\"open_warn\":%llu,\"open_err\":%llu,\"past_magic\":%llu,\"distinct_past_magic\":%llu,"
               "\"byname_miss\":%llu,\"reads_ok\":%llu,\"reads_err\":%llu,\"reads_skipped\":%llu,\"vars_seen\":%llu,\"atts_seen\":%llu,"
               "\"dims_seen\":%llu,\"oracle_failures\":%llu,\"allowed\":%llu,\"skipped_ndims\":%llu,\"skipped_att_nelems\":%llu,\"skipped_neg64\":%llu,\"max_open_reads\":%lld,\"max_peak\":%lld,\"errors\":{",
            (unsigned long long)st->tried, (unsigned long long)st->open_ok, (unsigned long long)st->open_warn, (unsigned long long)st->open_err,
            (unsigned long long)st->past_magic, (unsigned long long)st->distinct_past_magic, (unsigned long long)st->byname_miss,
            (unsigned long long)st->reads_ok, (unsigned long long)st->reads_err, (unsigned long long)st->reads_skipped,
            (unsigned long long)st->vars_seen, (unsigned long long)st->atts_seen, (unsigned long long)st->dims_seen,
            (unsigned long long)st->failures, (unsigned long long)st->allowed, (unsigned long long)st->skipped[0], (unsigned long long)st->skipped[1],
            (unsigned long long)st->skipped[2], (long long)st->max_open_reads, (long long)st->max_peak);
    int first = 1;
    for (int i = 0; i < PNC_ERRHIST; i++)
        if (st->errhist[i]) { fprintf(f, "%s\"%d\":%llu", first ? "" : ",", -i, (unsigned long long)st->errhist[i]); first = 0; }
    if (st->err_other) fprintf(f, "%s\"other\":%llu", first ? "" : ",", (unsigned long long)st->err_other);
    fprintf(f, "}");
}
#endif
