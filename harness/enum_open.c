/* enum_open - exhaustive single-field corruption of one seed file (C19 part A).
 *
 *   enum_open <seedfile> <outdir> [all|trunc|sub] [--start N] [--stop N]
 *   enum_open --one <file>
 *
 * Enumerates, in a fixed order (index = position in this order):
 *   0            the seed itself
 *   trunc:<len>  every truncation length 0..H (H = header size of the seed rounded up to 4, as
 *                reported by the library for the intact seed) and a stride of <= 32 lengths
 *                through the data region
 *   sub4:<off>:<v>  every 4-byte aligned word of the header replaced by each 32-bit dictionary value
 *   sub8:<off>:<v>  every 8-byte word starting at a 4-byte aligned header offset (covers the 8-byte
 *                aligned words and the CDF-5 fields, which are only 4-byte aligned) replaced by each
 *                64-bit dictionary value
 * and runs pnc_open_one (open_target.h) on each.  Oracle failures are recorded (first input of
 * every distinct failure key is saved to <outdir>/fail-<k>.bin) and the enumeration continues.
 * A sanitizer crash ends the process: the death callback saves the input as
 * <outdir>/crash-<index>.bin and prints the summary with "crashed":<index>, so the driver can
 * resume with --start <index+1>.  The last stdout line is one JSON object.
 * Exit status: 0 = enumeration complete without failure, 1 = complete with oracle failures,
 * other = crash / harness error.
 */
#include "open_target.h"
#include <signal.h>
#include <sys/resource.h>

#if defined(__SANITIZE_ADDRESS__)
# define PNC_ASAN 1
#elif defined(__has_feature)
# if __has_feature(address_sanitizer)
#  define PNC_ASAN 1
# endif
#endif
#ifdef PNC_ASAN
void __sanitizer_set_death_callback(void (*cb)(void));
#endif

#define MAXKEYS 64
#define MAXLIST 400
#define MAXSAMPLES 8

static struct stats S;
static const char *outdir;
static uint8_t *cur_data; static size_t cur_size; static long cur_idx = -1; static char cur_desc[64];
static long n_done, idx_start, idx_stop = -1, hdr_region;
static int complete; static long domain_total = -1;

struct keyrec { char key[96]; char detail[200]; long count, first_idx; char first_desc[64]; char file[64]; int allowed; };
static struct keyrec keys[MAXKEYS]; static int nkeys; static long key_overflow;
struct listrec { long idx; char desc[64]; int key; };
static struct listrec flist[MAXLIST]; static int nflist;
struct sample { char desc[64]; int status; size_t size; char *hex; };
static struct sample samples[MAXSAMPLES]; static int nsamples; static int sample_ok, sample_codes[8], nsample_codes;

static const uint32_t dict32[] = {
    0, 1, 2, 3, 4, 5, 6, 7, 8, 9, 10, 11, 12,                       /* small counts, nc_type codes 0..12, tags 10/11/12 */
    0x7f, 0x80, 0xff, 0x100, 0x101, 0x7fff, 0x8000, 0xffff,         /* 0x100/0x101: NC_MAX_NAME and one above */
    0x10000, 0x100000, 0x1000000, 0x10000000,                       /* element counts whose allocation can succeed */
    0x7fffff, 0x800000, 0xffffff,
    0x7fffffff, 0x80000000u, 0xffffffffu, 0x7ffffffc, 0xfffffffcu
};
static const uint64_t dict64[] = {
    0, 1, 2, 3, 4, 5, 6, 7, 8, 9, 10, 11, 12,
    0x7f, 0x80, 0xff, 0x100, 0x101, 0x7fff, 0x8000, 0xffff, 0x10000, 0x100000, 0x1000000, 0x10000000,
    0x7fffffffULL, 0x80000000ULL, 0xffffffffULL, 0x100000000ULL, 0x100000001ULL,
    0x7fffffffffffULL, 0x800000000000ULL, 0xffffffffffffULL,
    0x7fffffffffffffffULL, 0x8000000000000000ULL, 0xffffffffffffffffULL, 0x7ffffffffffffffcULL,
    0x0000000a00000001ULL, 0x0000000b00000001ULL, 0x0000000c00000001ULL   /* tag + count 1 in one CDF-1/2 word pair */
};
#define N32 (sizeof dict32 / sizeof dict32[0])
#define N64 (sizeof dict64 / sizeof dict64[0])

static char *hexdup(const uint8_t *d, size_t n)
{
    char *h = (char *)malloc(2 * n + 1);
    if (!h) return NULL;
    for (size_t i = 0; i < n; i++) sprintf(h + 2 * i, "%02x", d[i]);
    h[2 * n] = 0;
    return h;
}

static void save_input(const char *name)
{
    char p[700];
    if (!outdir) return;
    snprintf(p, sizeof p, "%s/%s", outdir, name);
    int fd = open(p, O_WRONLY | O_CREAT | O_TRUNC, 0600);
    if (fd < 0) return;
    size_t off = 0;
    while (off < cur_size) { ssize_t w = write(fd, cur_data + off, cur_size - off); if (w <= 0) break; off += (size_t)w; }
    close(fd);
}

static void json_str(FILE *f, const char *s)
{
    fputc('"', f);
    for (; *s; s++) {
        unsigned char c = (unsigned char)*s;
        if (c == '"' || c == '\\') { fputc('\\', f); fputc(c, f); }
        else if (c < 0x20 || c >= 0x7f) fprintf(f, "\\u%04x", c);
        else fputc(c, f);
    }
    fputc('"', f);
}

static void emit_summary(long crashed)
{
    FILE *f = stdout;
    fprintf(f, "{");
    pnc_stats_json(f, &S);
    fprintf(f, ",\"inputs_done\":%ld,\"domain\":%ld,\"start\":%ld,\"hdr_region\":%ld,\"complete\":%s,\"crashed\":%ld,\"crash_desc\":",
            n_done, domain_total, idx_start, hdr_region, complete ? "true" : "false", crashed);
    json_str(f, crashed >= 0 ? cur_desc : "");
    fprintf(f, ",\"key_overflow\":%ld,\"keys\":[", key_overflow);
    for (int i = 0; i < nkeys; i++) {
        fprintf(f, "%s{\"key\":", i ? "," : ""); json_str(f, keys[i].key);
        fprintf(f, ",\"detail\":"); json_str(f, keys[i].detail);
        fprintf(f, ",\"count\":%ld,\"first_idx\":%ld,\"first_desc\":", keys[i].count, keys[i].first_idx); json_str(f, keys[i].first_desc);
        fprintf(f, ",\"file\":"); json_str(f, keys[i].file);
        fprintf(f, ",\"allowed\":%s}", keys[i].allowed ? "true" : "false");
    }
    fprintf(f, "],\"list\":[");
    for (int i = 0; i < nflist; i++) {
        fprintf(f, "%s[%ld,", i ? "," : "", flist[i].idx); json_str(f, flist[i].desc); fprintf(f, ",%d]", flist[i].key);
    }
    fprintf(f, "],\"samples\":[");
    for (int i = 0; i < nsamples; i++) {
        fprintf(f, "%s{\"desc\":", i ? "," : ""); json_str(f, samples[i].desc);
        fprintf(f, ",\"open_status\":%d,\"size\":%zu,\"hex\":\"%s\"}", samples[i].status, samples[i].size, samples[i].hex ? samples[i].hex : "");
    }
    fprintf(f, "]}\n");
    fflush(f);
}

static void on_death(void)
{
    static int once;
    if (once++) return;
    if (cur_idx >= 0 && outdir) {
        char n[64];
        snprintf(n, sizeof n, "crash-%ld.bin", cur_idx);
        save_input(n);
        fprintf(stderr, "CRASH-INPUT idx=%ld desc=%s file=%s/%s\n", cur_idx, cur_desc, outdir, n);
        emit_summary(cur_idx);
        pnc_dump_hashes();
    }
    unlink(pnc_tmp_path);
}

static void on_signal(int sig)
{
    fprintf(stderr, "FATAL-SIGNAL %d\n", sig);
    on_death();
    signal(sig, SIG_DFL);
    raise(sig);
}

static int key_index(const struct pnc_fail *f, int allowed)
{
    for (int i = 0; i < nkeys; i++)
        if (keys[i].allowed == allowed && strcmp(keys[i].key, f->key) == 0) return i;
    if (nkeys == MAXKEYS) { key_overflow++; return -1; }
    struct keyrec *k = &keys[nkeys];
    memset(k, 0, sizeof *k);
    snprintf(k->key, sizeof k->key, "%s", f->key);
    snprintf(k->detail, sizeof k->detail, "%s", f->detail);
    k->first_idx = cur_idx;
    snprintf(k->first_desc, sizeof k->first_desc, "%s", cur_desc);
    snprintf(k->file, sizeof k->file, "%s-%d.bin", allowed ? "allowed" : "fail", nkeys);
    k->allowed = allowed;
    save_input(k->file);
    return nkeys++;
}

static void run_input(uint8_t *d, size_t n, const char *desc)
{
    long idx = ++cur_idx;
    if (idx < idx_start || (idx_stop >= 0 && idx >= idx_stop)) return;
    cur_data = d; cur_size = n;
    snprintf(cur_desc, sizeof cur_desc, "%s", desc);
    pnc_open_one(d, n, &S);
    n_done++;
    for (int i = 0; i < S.nfail; i++) {
        int k = key_index(&S.fail[i], 0);
        if (k >= 0) keys[k].count++;
        if (nflist < MAXLIST) { flist[nflist].idx = idx; snprintf(flist[nflist].desc, 64, "%s", desc); flist[nflist].key = k; nflist++; }
    }
    for (int i = 0; i < S.nallowed; i++) {
        int k = key_index(&S.allowed_last[i], 1);
        if (k >= 0) keys[k].count++;
    }
    /* a few written-out samples: modified inputs that still open, and one input per rejection code */
    if (idx > 0 && nsamples < MAXSAMPLES && n <= 700 && pnc_past_magic(d, n)) {
        int take = 0, st = S.last_status;
        if (st == NC_NOERR) { if (sample_ok < 2) { sample_ok++; take = 1; } }
        else if (nsample_codes < 5) {
            int seen = 0;
            for (int i = 0; i < nsample_codes; i++) if (sample_codes[i] == st) seen = 1;
            if (!seen) { sample_codes[nsample_codes++] = st; take = 1; }
        }
        if (take) {
            struct sample *s = &samples[nsamples++];
            snprintf(s->desc, sizeof s->desc, "%s", desc);
            s->status = st; s->size = n; s->hex = hexdup(d, n);
        }
    }
}

static long seed_header_size(const uint8_t *seed, size_t size)
{
    int ncid; MPI_Offset h = -1;
    const char *e = getenv("PNC_ENUM_HDR");
    if (e && *e) return atol(e);
    if (pnc_write_file(seed, size) != 0) return -1;
    if (ncmpi_open(MPI_COMM_SELF, pnc_tmp_path, NC_NOWRITE, MPI_INFO_NULL, &ncid) == NC_NOERR) {
        ncmpi_inq_header_size(ncid, &h);
        ncmpi_close(ncid);
    }
    unlink(pnc_tmp_path);
    return (long)h;
}

static uint8_t *read_file(const char *path, size_t *n)
{
    FILE *f = fopen(path, "rb");
    if (!f) return NULL;
    fseek(f, 0, SEEK_END);
    long sz = ftell(f);
    fseek(f, 0, SEEK_SET);
    uint8_t *d = (uint8_t *)malloc((size_t)sz + 16);
    if (d && sz > 0 && fread(d, 1, (size_t)sz, f) != (size_t)sz) { free(d); d = NULL; }
    fclose(f);
    *n = (size_t)sz;
    return d;
}

int main(int argc, char **argv)
{
    if (argc < 3) { fprintf(stderr, "usage: enum_open <seed> <outdir> [all|trunc|sub] [--start N] [--stop N] | enum_open --one <file>\n"); return 2; }
#ifndef PNC_ASAN
    { struct rlimit rl = { (rlim_t)8 << 30, (rlim_t)8 << 30 }; setrlimit(RLIMIT_AS, &rl); }
#endif
    MPI_Init(&argc, &argv);
    pnc_target_init();
#ifdef PNC_ASAN
    __sanitizer_set_death_callback(on_death);
#else
    signal(SIGSEGV, on_signal); signal(SIGBUS, on_signal); signal(SIGFPE, on_signal); signal(SIGABRT, on_signal);
#endif
    (void)on_signal;

    if (strcmp(argv[1], "--one") == 0) {
        size_t n; uint8_t *d = read_file(argv[2], &n);
        if (!d) { fprintf(stderr, "HARNESS-ERROR: cannot read %s\n", argv[2]); return 3; }
        cur_data = d; cur_size = n; cur_idx = 0; snprintf(cur_desc, sizeof cur_desc, "one"); outdir = NULL;
        cur_idx = -1;
        run_input(d, n, "one");
        complete = 1;
        printf("{\"open_status\":%d,\"open_reads\":%lld,\"peak\":%lld,\"past_magic\":%d,\"failures\":[", S.last_status,
               (long long)S.last_reads, (long long)S.last_peak, pnc_past_magic(d, n));
        for (int i = 0; i < S.nfail; i++) { printf("%s[", i ? "," : ""); json_str(stdout, S.fail[i].key); printf(","); json_str(stdout, S.fail[i].detail); printf("]"); }
        printf("],\"allowed\":[");
        for (int i = 0; i < S.nallowed; i++) { printf("%s[", i ? "," : ""); json_str(stdout, S.allowed_last[i].key); printf(","); json_str(stdout, S.allowed_last[i].detail); printf("]"); }
        printf("]}\n");
        fflush(stdout);
        _exit(S.nfail ? 1 : 0);
    }

    const char *mode = "all";
    outdir = argv[2];
    for (int i = 3; i < argc; i++) {
        if (!strcmp(argv[i], "--start") && i + 1 < argc) idx_start = atol(argv[++i]);
        else if (!strcmp(argv[i], "--stop") && i + 1 < argc) idx_stop = atol(argv[++i]);
        else mode = argv[i];
    }
    size_t size; uint8_t *seed = read_file(argv[1], &size);
    if (!seed) { fprintf(stderr, "HARNESS-ERROR: cannot read %s\n", argv[1]); return 3; }
    long h = seed_header_size(seed, size);
    if (h <= 0 || (size_t)h > size) h = (long)(size < 4096 ? size : 4096);
    h = (h + 3) / 4 * 4;
    if ((size_t)h > size) h = (long)size;
    hdr_region = h;
    uint8_t *buf = (uint8_t *)malloc(size + 16);
    char desc[64];

    memcpy(buf, seed, size);
    run_input(buf, size, "seed");
    if (!strcmp(mode, "all") || !strcmp(mode, "trunc")) {
        for (long len = 0; len <= h && (size_t)len < size; len++) {
            snprintf(desc, sizeof desc, "trunc:%ld", len);
            run_input(buf, (size_t)len, desc);
        }
        long step = ((long)size - h) / 32; if (step < 1) step = 1;
        for (long len = h + step; (size_t)len < size; len += step) {
            snprintf(desc, sizeof desc, "trunc:%ld", len);
            run_input(buf, (size_t)len, desc);
        }
    }
    if (!strcmp(mode, "all") || !strcmp(mode, "sub")) {
        for (long off = 0; off + 4 <= h; off += 4) {
            for (size_t k = 0; k < N32; k++) {
                uint32_t v = dict32[k];
                memcpy(buf, seed, size);
                buf[off] = (uint8_t)(v >> 24); buf[off + 1] = (uint8_t)(v >> 16); buf[off + 2] = (uint8_t)(v >> 8); buf[off + 3] = (uint8_t)v;
                snprintf(desc, sizeof desc, "sub4:%ld:%08x", off, v);
                run_input(buf, size, desc);
            }
        }
        for (long off = 0; off + 8 <= h; off += 4) {
            for (size_t k = 0; k < N64; k++) {
                uint64_t v = dict64[k];
                memcpy(buf, seed, size);
                for (int b = 0; b < 8; b++) buf[off + b] = (uint8_t)(v >> (56 - 8 * b));
                snprintf(desc, sizeof desc, "sub8:%ld:%016llx", off, (unsigned long long)v);
                run_input(buf, size, desc);
            }
        }
    }
    complete = 1;           /* the requested index range [--start, --stop) was walked to its end */
    long total = cur_idx + 1;
    domain_total = total;
    cur_idx = -1;           /* nothing in flight any more */
    emit_summary(-1);
    pnc_dump_hashes();
    fprintf(stderr, "enum_open: %ld inputs in the domain, %ld run, %llu oracle failures\n", total, n_done, (unsigned long long)S.failures);
    fflush(stderr);
    _exit(S.failures ? 1 : 0);   /* no MPI_Finalize on purpose (same life cycle as the fuzz target) */
}
