/* PMPI interposition shim linked into pncx.
 *
 *  - collective matcher: every collective the *library* issues on a
 *    communicator / file handle spanning all k ranks of the running script is
 *    preceded by a PMPI_Allgather of a small record on a shadow communicator;
 *    disagreement is reported deterministically before the real call can hang.
 *  - fault injector for MPI-IO data transfers.
 *  - ledger of MPI objects created / freed by library code.
 *  - I/O log.
 *
 * Only calls whose return address lies inside this executable's text (the
 * library is linked statically into it; the harness itself only uses PMPI_*)
 * are observed; calls that libmpi makes to itself are passed through.
 */
#define _GNU_SOURCE
#include <stdio.h>
#include <stdlib.h>
#include <string.h>
#include <unistd.h>
#include <mpi.h>
#include "shim.h"

extern char __executable_start, etext;
extern int resfd_global; extern char cur_script_id[64];

#define FROM_LIB(ra) ((char*)(ra) >= &__executable_start && (char*)(ra) < &etext)
#define RA __builtin_return_address(0)

enum { C_BCAST = 1, C_ALLREDUCE, C_REDUCE, C_BARRIER, C_GATHER, C_GATHERV, C_ALLGATHER, C_ALLTOALL, C_COMM_DUP, C_COMM_SPLIT,
       C_FILE_OPEN, C_FILE_CLOSE, C_SET_VIEW, C_FILE_SYNC, C_SET_SIZE, C_READ_ALL, C_WRITE_ALL, C_COMM_FREE, C_SCAN,
       C_STEP_END = 100, C_SCRIPT_END = 101 };

static MPI_Comm shadow = MPI_COMM_NULL; static int matching = 0, ksz = 1, krk = 0; static int step = 0;
static MPI_Comm shadow_cache[65];
static long n_coll = 0, n_shadow = 0;
static unsigned long long coll_hash = 1469598103934665603ULL;

/* ---------------- ledger ---------------- */
typedef struct { int kind; void *h; void *site; int step; } live_t;   /* kind: 0 type 1 comm 2 info 3 file */
static live_t *live; static int nlive, caplive; static long created[4], freed[4], foreign_free[4];
static void led_add(int kind, void *h, void *site) {
    if (nlive == caplive) { caplive = caplive * 2 + 64; live = realloc(live, caplive * sizeof(live_t)); }
    live[nlive].kind = kind; live[nlive].h = h; live[nlive].site = site; live[nlive].step = step; nlive++; created[kind]++;
}
static void led_del(int kind, void *h) {
    for (int i = nlive - 1; i >= 0; i--) if (live[i].kind == kind && live[i].h == h) { live[i] = live[--nlive]; freed[kind]++; return; }
    foreign_free[kind]++;
}

/* ---------------- io log / fault ---------------- */
typedef struct { int fn; int step; void *site; long long off; long long bytes; int injected; int rc; } io_t;
static io_t *iolog; static int nio, capio; static long io_total;
static int fault_armed = 0, fault_ord = -1, fault_cls = 0, fault_suppress = 0, fault_count = 0, fault_fired = 0; static void *fault_site; static int fault_step = -1, fault_fn = -1;
static int n_hdr_read = 0;

void shim_arm_fault(int ordinal, int cls, int suppress) { fault_armed = 1; fault_ord = ordinal; fault_cls = cls; fault_suppress = suppress; fault_count = 0; fault_fired = 0; }

static int cls_code(int c) {
    switch (c) { case 1: return MPI_ERR_IO; case 2: return MPI_ERR_NO_SPACE; case 3: return MPI_ERR_QUOTA; case 4: return MPI_ERR_ACCESS;
    case 5: return MPI_ERR_READ_ONLY; case 6: return MPI_ERR_FILE; case 7: return MPI_ERR_OTHER; case 8: return MPI_ERR_NO_SUCH_FILE; case 9: return MPI_ERR_BAD_FILE;
    case 10: return MPI_ERR_FILE_IN_USE; case 11: return MPI_ERR_AMODE; case 12: return MPI_ERR_UNKNOWN; default: return MPI_ERR_IO; }
}
/* returns 1 if this transfer is the faulted one */
static int io_note(int fn, void *site, long long off, int count, MPI_Datatype t) {
    int sz = 0; if (t != MPI_DATATYPE_NULL) PMPI_Type_size(t, &sz);
    int hit = 0;
    if (fault_armed) { if (fault_count == fault_ord) { hit = 1; fault_fired = 1; fault_site = site; fault_step = step; fault_fn = fn; fault_armed = 0; } fault_count++; }
    if (nio == capio) { capio = capio * 2 + 64; iolog = realloc(iolog, capio * sizeof(io_t)); }
    if (nio < 20000) { iolog[nio].fn = fn; iolog[nio].step = step; iolog[nio].site = site; iolog[nio].off = off; iolog[nio].bytes = (long long)count * sz; iolog[nio].injected = hit; nio++; }
    io_total++;
    return hit;
}

/* ---------------- matcher ---------------- */
typedef struct { long long cls, root, sig, step, site; } rec_t;
static void mismatch(rec_t *all, rec_t *me) {
    fprintf(stderr, "PNCX-MISMATCH id=%s rank=%d step=%lld mine=%lld site=%llx\n", cur_script_id, krk, me->step, me->cls, (unsigned long long)me->site);
    if (krk == 0 && resfd_global >= 0) {
        char buf[8192]; int n = snprintf(buf, sizeof buf, "{\"id\":\"%s\",\"k\":%d,\"mismatch\":[", cur_script_id, ksz);
        for (int i = 0; i < ksz && n < 7800; i++) n += snprintf(buf + n, sizeof buf - n, "%s{\"rank\":%d,\"cls\":%lld,\"root\":%lld,\"sig\":%lld,\"step\":%lld,\"site\":%lld}", i ? "," : "", i, all[i].cls, all[i].root, all[i].sig, all[i].step, all[i].site);
        n += snprintf(buf + n, sizeof buf - n, "]}\n");
        if (write(resfd_global, buf, n) < 0) perror("write");
    }
    fflush(stderr);
    usleep(200000);
    _exit(86);
}
static void shadow_post(int cls, int root, long long sig, void *site) {
    if (!matching) return;
    rec_t me = { cls, root, sig, step, (long long)(size_t)site }; rec_t all[64];
    PMPI_Allgather(&me, sizeof me, MPI_BYTE, all, sizeof me, MPI_BYTE, shadow);
    n_shadow++;
    for (int i = 0; i < ksz; i++) if (all[i].cls != me.cls || all[i].root != me.root || all[i].sig != me.sig || all[i].step != me.step) {
        /* report on every rank (they all see the same table) */
        mismatch(all, &me);
    }
    if (cls < 100) { n_coll++; coll_hash = (coll_hash ^ (unsigned long long)(cls * 131 + root)) * 1099511628211ULL; }
}
static int comm_full(MPI_Comm c) { int n; if (!matching || c == MPI_COMM_NULL) return 0; PMPI_Comm_size(c, &n); int inter = 0; PMPI_Comm_test_inter(c, &inter); return !inter && n == ksz; }
/* file handle -> spans all k ranks? */
static struct { MPI_File fh; int full; } ftab[256]; static int nft;
static int file_full(MPI_File fh) { for (int i = 0; i < nft; i++) if (ftab[i].fh == fh) return matching && ftab[i].full; return 0; }

void shim_init(void) { for (int i = 0; i < 65; i++) shadow_cache[i] = MPI_COMM_NULL; }
void shim_begin_script(MPI_Comm k_comm, int match) {
    PMPI_Comm_size(k_comm, &ksz); PMPI_Comm_rank(k_comm, &krk);
    matching = match && ksz > 1;
    if (matching) { if (shadow_cache[ksz] == MPI_COMM_NULL) PMPI_Comm_dup(k_comm, &shadow_cache[ksz]); shadow = shadow_cache[ksz]; }
    nlive = 0; memset(created, 0, sizeof created); memset(freed, 0, sizeof freed); memset(foreign_free, 0, sizeof foreign_free);
    nio = 0; io_total = 0; fault_armed = 0; fault_fired = 0; n_coll = 0; n_shadow = 0; nft = 0; n_hdr_read = 0; coll_hash = 1469598103934665603ULL;
    step = 0;
}
void shim_set_step(int n) { step = n; }
void shim_stop_matching(void) { matching = 0; }
void shim_step_end(void) { shadow_post(C_STEP_END, 0, 0, NULL); }
void shim_end_script(void) { step = -2; shadow_post(C_SCRIPT_END, 0, 0, NULL); matching = 0; }

static const char *IOFN[] = {"read", "write", "read_at", "write_at", "read_all", "write_all", "read_at_all", "write_at_all"};
char *shim_ledger_report(void) {
    char *b = malloc(4096 + nlive * 64); int n = 0;
    n += sprintf(b + n, "{\"created\":[%ld,%ld,%ld,%ld],\"freed\":[%ld,%ld,%ld,%ld],\"foreign_free\":[%ld,%ld,%ld,%ld],\"live\":[", created[0], created[1], created[2], created[3], freed[0], freed[1], freed[2], freed[3], foreign_free[0], foreign_free[1], foreign_free[2], foreign_free[3]);
    for (int i = 0; i < nlive && i < 50; i++) n += sprintf(b + n, "%s[%d,%lld,%d]", i ? "," : "", live[i].kind, (long long)(size_t)live[i].site, live[i].step);
    n += sprintf(b + n, "]}");
    return b;
}
char *shim_script_report(void) {
    char *led = shim_ledger_report();
    int lim = nio < 400 ? nio : 400;
    char *b = malloc(8192 + strlen(led) + lim * 96); int n = 0;
    n += sprintf(b + n, "{\"ncoll\":%ld,\"nshadow\":%ld,\"chash\":\"%llx\",\"nio\":%ld,\"fault\":{\"fired\":%d,\"site\":%lld,\"step\":%d,\"fn\":%d},\"ledger\":%s,\"io\":[", n_coll, n_shadow, coll_hash, io_total, fault_fired, (long long)(size_t)fault_site, fault_step, fault_fn, led);
    for (int i = 0; i < lim; i++) n += sprintf(b + n, "%s[\"%s\",%d,%lld,%lld,%lld,%d]", i ? "," : "", IOFN[iolog[i].fn], iolog[i].step, (long long)(size_t)iolog[i].site, iolog[i].off, iolog[i].bytes, iolog[i].injected);
    n += sprintf(b + n, "]}");
    free(led);
    return b;
}

/* ================= wrappers ================= */
static long long tsig(int count, MPI_Datatype t) { int sz = 0; if (t != MPI_DATATYPE_NULL) PMPI_Type_size(t, &sz); return (long long)count * sz; }

int MPI_Bcast(void *buf, int count, MPI_Datatype t, int root, MPI_Comm c) {
    void *ra = RA; if (FROM_LIB(ra) && comm_full(c)) shadow_post(C_BCAST, root, tsig(count, t), ra);
    return PMPI_Bcast(buf, count, t, root, c);
}
int MPI_Allreduce(const void *s, void *r, int count, MPI_Datatype t, MPI_Op op, MPI_Comm c) {
    void *ra = RA; if (FROM_LIB(ra) && comm_full(c)) shadow_post(C_ALLREDUCE, 0, tsig(count, t), ra);
    return PMPI_Allreduce(s, r, count, t, op, c);
}
int MPI_Reduce(const void *s, void *r, int count, MPI_Datatype t, MPI_Op op, int root, MPI_Comm c) {
    void *ra = RA; if (FROM_LIB(ra) && comm_full(c)) shadow_post(C_REDUCE, root, tsig(count, t), ra);
    return PMPI_Reduce(s, r, count, t, op, root, c);
}
int MPI_Barrier(MPI_Comm c) {
    void *ra = RA; if (FROM_LIB(ra) && comm_full(c)) shadow_post(C_BARRIER, 0, 0, ra);
    return PMPI_Barrier(c);
}
int MPI_Gather(const void *s, int sc, MPI_Datatype st, void *r, int rc, MPI_Datatype rt, int root, MPI_Comm c) {
    void *ra = RA; if (FROM_LIB(ra) && comm_full(c)) shadow_post(C_GATHER, root, tsig(sc, st), ra);
    return PMPI_Gather(s, sc, st, r, rc, rt, root, c);
}
int MPI_Gatherv(const void *s, int sc, MPI_Datatype st, void *r, const int *rc, const int *d, MPI_Datatype rt, int root, MPI_Comm c) {
    void *ra = RA; if (FROM_LIB(ra) && comm_full(c)) shadow_post(C_GATHERV, root, 0, ra);
    return PMPI_Gatherv(s, sc, st, r, rc, d, rt, root, c);
}
int MPI_Allgather(const void *s, int sc, MPI_Datatype st, void *r, int rc, MPI_Datatype rt, MPI_Comm c) {
    void *ra = RA; if (FROM_LIB(ra) && comm_full(c)) shadow_post(C_ALLGATHER, 0, tsig(sc, st), ra);
    return PMPI_Allgather(s, sc, st, r, rc, rt, c);
}
int MPI_Alltoall(const void *s, int sc, MPI_Datatype st, void *r, int rc, MPI_Datatype rt, MPI_Comm c) {
    void *ra = RA; if (FROM_LIB(ra) && comm_full(c)) shadow_post(C_ALLTOALL, 0, tsig(sc, st), ra);
    return PMPI_Alltoall(s, sc, st, r, rc, rt, c);
}
int MPI_Comm_dup(MPI_Comm c, MPI_Comm *n) {
    void *ra = RA; int lib = FROM_LIB(ra); if (lib && comm_full(c)) shadow_post(C_COMM_DUP, 0, 0, ra);
    int e = PMPI_Comm_dup(c, n); if (lib && e == MPI_SUCCESS) led_add(1, (void *)*n, ra); return e;
}
int MPI_Comm_split(MPI_Comm c, int color, int key, MPI_Comm *n) {
    void *ra = RA; int lib = FROM_LIB(ra); if (lib && comm_full(c)) shadow_post(C_COMM_SPLIT, 0, 0, ra);
    int e = PMPI_Comm_split(c, color, key, n); if (lib && e == MPI_SUCCESS && *n != MPI_COMM_NULL) led_add(1, (void *)*n, ra); return e;
}
int MPI_Comm_split_type(MPI_Comm c, int type, int key, MPI_Info info, MPI_Comm *n) {
    void *ra = RA; int lib = FROM_LIB(ra); if (lib && comm_full(c)) shadow_post(C_COMM_SPLIT, 1, 0, ra);
    int e = PMPI_Comm_split_type(c, type, key, info, n); if (lib && e == MPI_SUCCESS && *n != MPI_COMM_NULL) led_add(1, (void *)*n, ra); return e;
}
int MPI_Comm_free(MPI_Comm *c) {
    void *ra = RA; if (FROM_LIB(ra)) led_del(1, (void *)*c);
    return PMPI_Comm_free(c);
}
/* ---- info ---- */
int MPI_Info_create(MPI_Info *i) { void *ra = RA; int e = PMPI_Info_create(i); if (FROM_LIB(ra) && e == MPI_SUCCESS) led_add(2, (void *)*i, ra); return e; }
int MPI_Info_dup(MPI_Info i, MPI_Info *n) { void *ra = RA; int e = PMPI_Info_dup(i, n); if (FROM_LIB(ra) && e == MPI_SUCCESS) led_add(2, (void *)*n, ra); return e; }
int MPI_Info_free(MPI_Info *i) { void *ra = RA; if (FROM_LIB(ra)) led_del(2, (void *)*i); return PMPI_Info_free(i); }
int MPI_File_get_info(MPI_File fh, MPI_Info *i) { void *ra = RA; int e = PMPI_File_get_info(fh, i); if (FROM_LIB(ra) && e == MPI_SUCCESS) led_add(2, (void *)*i, ra); return e; }
/* ---- datatypes ---- */
#define TYPE_NEW(call) void *ra = RA; int e = call; if (FROM_LIB(ra) && e == MPI_SUCCESS) led_add(0, (void *)*n, ra); return e;
int MPI_Type_contiguous(int c, MPI_Datatype o, MPI_Datatype *n) { TYPE_NEW(PMPI_Type_contiguous(c, o, n)) }
int MPI_Type_vector(int c, int b, int s, MPI_Datatype o, MPI_Datatype *n) { TYPE_NEW(PMPI_Type_vector(c, b, s, o, n)) }
int MPI_Type_create_hvector(int c, int b, MPI_Aint s, MPI_Datatype o, MPI_Datatype *n) { TYPE_NEW(PMPI_Type_create_hvector(c, b, s, o, n)) }
int MPI_Type_indexed(int c, const int *b, const int *d, MPI_Datatype o, MPI_Datatype *n) { TYPE_NEW(PMPI_Type_indexed(c, b, d, o, n)) }
int MPI_Type_create_hindexed(int c, const int *b, const MPI_Aint *d, MPI_Datatype o, MPI_Datatype *n) { TYPE_NEW(PMPI_Type_create_hindexed(c, b, d, o, n)) }
int MPI_Type_create_indexed_block(int c, int b, const int *d, MPI_Datatype o, MPI_Datatype *n) { TYPE_NEW(PMPI_Type_create_indexed_block(c, b, d, o, n)) }
int MPI_Type_create_struct(int c, const int *b, const MPI_Aint *d, const MPI_Datatype *t, MPI_Datatype *n) { TYPE_NEW(PMPI_Type_create_struct(c, b, d, t, n)) }
int MPI_Type_create_subarray(int nd, const int *sz, const int *ss, const int *st, int order, MPI_Datatype o, MPI_Datatype *n) { TYPE_NEW(PMPI_Type_create_subarray(nd, sz, ss, st, order, o, n)) }
int MPI_Type_create_resized(MPI_Datatype o, MPI_Aint lb, MPI_Aint ext, MPI_Datatype *n) { TYPE_NEW(PMPI_Type_create_resized(o, lb, ext, n)) }
int MPI_Type_dup(MPI_Datatype o, MPI_Datatype *n) { TYPE_NEW(PMPI_Type_dup(o, n)) }
int MPI_Type_free(MPI_Datatype *t) { void *ra = RA; if (FROM_LIB(ra)) led_del(0, (void *)*t); return PMPI_Type_free(t); }
/* MPI_Type_get_contents hands out new references to derived member types which the caller must free */
int MPI_Type_get_contents(MPI_Datatype t, int mi, int ma, int md, int *ai, MPI_Aint *aa, MPI_Datatype *ad) {
    void *ra = RA; int e = PMPI_Type_get_contents(t, mi, ma, md, ai, aa, ad);
    if (FROM_LIB(ra) && e == MPI_SUCCESS) for (int i = 0; i < md; i++) { int a, b, c, comb; PMPI_Type_get_envelope(ad[i], &a, &b, &c, &comb); if (comb != MPI_COMBINER_NAMED) led_add(0, (void *)ad[i], ra); }
    return e;
}
/* ---- files ---- */
int MPI_File_open(MPI_Comm c, const char *fn, int amode, MPI_Info info, MPI_File *fh) {
    void *ra = RA; int lib = FROM_LIB(ra); int full = lib && comm_full(c);
    if (full) shadow_post(C_FILE_OPEN, 0, 0, ra);
    int e = PMPI_File_open(c, fn, amode, info, fh);
    if (lib && e == MPI_SUCCESS) { led_add(3, (void *)*fh, ra); if (nft < 256) { ftab[nft].fh = *fh; ftab[nft].full = full; nft++; } }
    return e;
}
int MPI_File_close(MPI_File *fh) {
    void *ra = RA; int lib = FROM_LIB(ra);
    if (lib) { if (file_full(*fh)) shadow_post(C_FILE_CLOSE, 0, 0, ra); led_del(3, (void *)*fh); for (int i = 0; i < nft; i++) if (ftab[i].fh == *fh) { ftab[i] = ftab[--nft]; break; } }
    return PMPI_File_close(fh);
}
int MPI_File_set_view(MPI_File fh, MPI_Offset disp, MPI_Datatype et, MPI_Datatype ft, const char *rep, MPI_Info info) {
    void *ra = RA; if (FROM_LIB(ra) && file_full(fh)) shadow_post(C_SET_VIEW, 0, 0, ra);
    return PMPI_File_set_view(fh, disp, et, ft, rep, info);
}
int MPI_File_sync(MPI_File fh) { void *ra = RA; if (FROM_LIB(ra) && file_full(fh)) shadow_post(C_FILE_SYNC, 0, 0, ra); return PMPI_File_sync(fh); }
int MPI_File_set_size(MPI_File fh, MPI_Offset sz) { void *ra = RA; if (FROM_LIB(ra) && file_full(fh)) shadow_post(C_SET_SIZE, 0, 0, ra); return PMPI_File_set_size(fh, sz); }

#define XFER(fnidx, coll_cls, real_call, zero_call) \
    void *ra = RA; int lib = FROM_LIB(ra); \
    if (!lib) return real_call; \
    if ((coll_cls) != 0 && file_full(fh)) shadow_post(coll_cls, 0, 0, ra); \
    int hit = io_note(fnidx, ra, off_, count, t); \
    int e; \
    if (hit && fault_suppress) e = zero_call; else e = real_call; \
    if (hit) return cls_code(fault_cls); \
    return e;

int MPI_File_read(MPI_File fh, void *buf, int count, MPI_Datatype t, MPI_Status *st) { long long off_ = -1; XFER(0, 0, PMPI_File_read(fh, buf, count, t, st), PMPI_File_read(fh, buf, 0, t, st)) }
int MPI_File_write(MPI_File fh, const void *buf, int count, MPI_Datatype t, MPI_Status *st) { long long off_ = -1; XFER(1, 0, PMPI_File_write(fh, buf, count, t, st), PMPI_File_write(fh, buf, 0, t, st)) }
int MPI_File_read_at(MPI_File fh, MPI_Offset off, void *buf, int count, MPI_Datatype t, MPI_Status *st) { long long off_ = off; XFER(2, 0, PMPI_File_read_at(fh, off, buf, count, t, st), PMPI_File_read_at(fh, off, buf, 0, t, st)) }
int MPI_File_write_at(MPI_File fh, MPI_Offset off, const void *buf, int count, MPI_Datatype t, MPI_Status *st) { long long off_ = off; XFER(3, 0, PMPI_File_write_at(fh, off, buf, count, t, st), PMPI_File_write_at(fh, off, buf, 0, t, st)) }
int MPI_File_read_all(MPI_File fh, void *buf, int count, MPI_Datatype t, MPI_Status *st) { long long off_ = -1; XFER(4, C_READ_ALL, PMPI_File_read_all(fh, buf, count, t, st), PMPI_File_read_all(fh, buf, 0, t, st)) }
int MPI_File_write_all(MPI_File fh, const void *buf, int count, MPI_Datatype t, MPI_Status *st) { long long off_ = -1; XFER(5, C_WRITE_ALL, PMPI_File_write_all(fh, buf, count, t, st), PMPI_File_write_all(fh, buf, 0, t, st)) }
int MPI_File_read_at_all(MPI_File fh, MPI_Offset off, void *buf, int count, MPI_Datatype t, MPI_Status *st) { long long off_ = off; XFER(6, C_READ_ALL, PMPI_File_read_at_all(fh, off, buf, count, t, st), PMPI_File_read_at_all(fh, off, buf, 0, t, st)) }
int MPI_File_write_at_all(MPI_File fh, MPI_Offset off, const void *buf, int count, MPI_Datatype t, MPI_Status *st) { long long off_ = off; XFER(7, C_WRITE_ALL, PMPI_File_write_at_all(fh, off, buf, count, t, st), PMPI_File_write_at_all(fh, off, buf, 0, t, st)) }
