/* pncx - script executor for the PnetCDF verification harness.
 *
 * Reads line-oriented scripts (see /verif/harness/SCRIPT.md), executes every
 * statement through the public ncmpi_* API with fully explicit arguments and
 * reports, per statement and rank, return codes and outputs as JSON.
 *
 * modes:  pncx --pool <cmdfifo> <resfifo>     persistent pool under mpiexec
 *         pncx --file <script> [<result>]     run one script (all ranks of WORLD)
 *
 * All harness-internal MPI traffic uses PMPI_* so the interposition shim
 * (shim.c) only sees what the library does.
 */
#define _GNU_SOURCE
#include <stdio.h>
#include <stdlib.h>
#include <string.h>
#include <stdint.h>
#include <unistd.h>
#include <fcntl.h>
#include <errno.h>
#include <sys/stat.h>
#include <sys/types.h>
#include <dirent.h>
#include <mpi.h>
#include <pnetcdf.h>
#include "shim.h"

#define MAXTOK 256
#define NFILES 24
#define NSLOT 4096
#define GUARD 64

/* ------------------------------------------------------------------ */
/* string buffer */
typedef struct { char *p; size_t n, cap; } sb_t;
static void sb_need(sb_t *s, size_t more) {
    if (s->n + more + 1 > s->cap) {
        s->cap = (s->n + more + 1) * 2 + 256;
        s->p = realloc(s->p, s->cap);
    }
}
static void sb_put(sb_t *s, const char *t) { size_t l = strlen(t); sb_need(s, l); memcpy(s->p + s->n, t, l); s->n += l; s->p[s->n] = 0; }
static void sb_printf(sb_t *s, const char *fmt, ...) __attribute__((format(printf, 2, 3)));
#include <stdarg.h>
static void sb_printf(sb_t *s, const char *fmt, ...) {
    va_list ap; char tmp[512];
    va_start(ap, fmt); int l = vsnprintf(tmp, sizeof tmp, fmt, ap); va_end(ap);
    if (l < (int)sizeof tmp) { sb_put(s, tmp); return; }
    sb_need(s, l + 1);
    va_start(ap, fmt); vsnprintf(s->p + s->n, l + 1, fmt, ap); va_end(ap);
    s->n += l;
}
static void sb_hex(sb_t *s, const void *buf, size_t n) {
    static const char *H = "0123456789abcdef";
    const unsigned char *b = buf;
    sb_need(s, 2 * n + 2);
    s->p[s->n++] = '"';
    for (size_t i = 0; i < n; i++) { s->p[s->n++] = H[b[i] >> 4]; s->p[s->n++] = H[b[i] & 15]; }
    s->p[s->n++] = '"';
    s->p[s->n] = 0;
}
static void sb_ll_array(sb_t *s, const long long *v, int n) {
    sb_put(s, "[");
    for (int i = 0; i < n; i++) sb_printf(s, "%s%lld", i ? "," : "", v[i]);
    sb_put(s, "]");
}
static int hexval(int c) { return c <= '9' ? c - '0' : (c | 32) - 'a' + 10; }
static size_t unhex(const char *h, unsigned char *out) {
    size_t n = strlen(h) / 2;
    for (size_t i = 0; i < n; i++) out[i] = (unsigned char)(hexval(h[2 * i]) * 16 + hexval(h[2 * i + 1]));
    return n;
}
static char *unhex_str(const char *h) { /* malloc'd NUL-terminated */
    size_t n = strlen(h) / 2; char *o = malloc(n + 1);
    unhex(h, (unsigned char *)o); o[n] = 0; return o;
}

/* ------------------------------------------------------------------ */
/* global executor state */
static int wrank, wsize;
static MPI_Comm comm_k[65];      /* sub-communicator of first k ranks */
static MPI_Comm cur = MPI_COMM_NULL;
static int krank, ksize;
static char curdir[1024];

static int ncids[NFILES]; static int ncid_open[NFILES]; static int ncid_last[NFILES];
static char *fpaths[NFILES];
typedef struct { unsigned char *blk; unsigned char *init; size_t size; } gbuf_t;
static gbuf_t bufs[NSLOT];
static MPI_Datatype types[NSLOT]; static int type_set[NSLOT];
static MPI_Info infos[NSLOT]; static int info_set[NSLOT];
static int reqs[NSLOT];
static char *envnames[64]; static int nenv;

static MPI_Datatype prim_type(const char *n) {
    if (!strcmp(n, "byte")) return MPI_BYTE;
    if (!strcmp(n, "char") || !strcmp(n, "text")) return MPI_CHAR;
    if (!strcmp(n, "schar")) return MPI_SIGNED_CHAR;
    if (!strcmp(n, "uchar")) return MPI_UNSIGNED_CHAR;
    if (!strcmp(n, "short")) return MPI_SHORT;
    if (!strcmp(n, "ushort")) return MPI_UNSIGNED_SHORT;
    if (!strcmp(n, "int")) return MPI_INT;
    if (!strcmp(n, "uint")) return MPI_UNSIGNED;
    if (!strcmp(n, "long")) return MPI_LONG;
    if (!strcmp(n, "ulong")) return MPI_UNSIGNED_LONG;
    if (!strcmp(n, "float")) return MPI_FLOAT;
    if (!strcmp(n, "double")) return MPI_DOUBLE;
    if (!strcmp(n, "longlong")) return MPI_LONG_LONG_INT;
    if (!strcmp(n, "ulonglong")) return MPI_UNSIGNED_LONG_LONG;
    if (!strcmp(n, "ldouble")) return MPI_LONG_DOUBLE;       /* unsupported by PnetCDF */
    if (!strcmp(n, "null")) return MPI_DATATYPE_NULL;
    return MPI_DATATYPE_NULL;
}
static const char *MT[] = {"text","schar","uchar","short","ushort","int","uint","long","float","double","longlong","ulonglong","flex","ubyte"};
static int mt_code(const char *s) { for (int i = 0; i < 14; i++) if (!strcmp(s, MT[i])) return i; return -1; }

/* ------------------------------------------------------------------ */
/* tokenised statement */
typedef struct { char *k[MAXTOK]; char *v[MAXTOK]; int n; } stmt_t;
static const char *arg(stmt_t *s, const char *key) {
    for (int i = 0; i < s->n; i++) if (!strcmp(s->k[i], key)) return s->v[i];
    return NULL;
}
static long long argll(stmt_t *s, const char *key, long long dflt) {
    const char *v = arg(s, key); return v ? strtoll(v, NULL, 0) : dflt;
}
/* parse list "a,b,c" of long long; returns malloc'd array or NULL for "NULL"/absent */
static MPI_Offset *parse_offs(const char *v, int *n) {
    *n = 0;
    if (!v || !strcmp(v, "NULL")) return NULL;
    int cnt = 1; for (const char *p = v; *p; p++) if (*p == ',') cnt++;
    MPI_Offset *o = malloc(sizeof(MPI_Offset) * (cnt + 1));
    if (!*v) { return o; }
    const char *p = v;
    for (int i = 0; i < cnt; i++) { char *e; o[i] = strtoll(p, &e, 0); p = (*e == ',') ? e + 1 : e; }
    *n = cnt;
    return o;
}
static int *parse_ints(const char *v, int *n) {
    *n = 0;
    if (!v || !strcmp(v, "NULL")) return NULL;
    int cnt = 1; for (const char *p = v; *p; p++) if (*p == ',') cnt++;
    int *o = malloc(sizeof(int) * (cnt + 1));
    if (!*v) return o;
    const char *p = v;
    for (int i = 0; i < cnt; i++) { char *e; o[i] = (int)strtol(p, &e, 0); p = (*e == ',') ? e + 1 : e; }
    *n = cnt;
    return o;
}
/* "a,b;c,d;NULL" -> array of arrays; entries may be NULL; whole may be NULL */
static MPI_Offset **parse_offs2(const char *v, int *n) {
    *n = 0;
    if (!v || !strcmp(v, "NULL")) return NULL;
    int cnt = 1; for (const char *p = v; *p; p++) if (*p == ';') cnt++;
    MPI_Offset **o = calloc(cnt + 1, sizeof(MPI_Offset *));
    char *dup = strdup(v), *save = NULL; int i = 0;
    /* strtok_r skips empty tokens; encode empty lists as "-" */
    for (char *t = strtok_r(dup, ";", &save); t; t = strtok_r(NULL, ";", &save), i++) {
        int m; o[i] = !strcmp(t, "-") ? malloc(8) : parse_offs(t, &m);
    }
    free(dup);
    *n = i;
    return o;
}
static void free_offs2(MPI_Offset **o, int n) { if (!o) return; for (int i = 0; i < n; i++) free(o[i]); free(o); }

static int file_arg(stmt_t *s) {   /* f=f3 | raw:123 | stale:f3 */
    const char *v = arg(s, "f");
    if (!v) return -1;
    if (v[0] == 'f') { int i = atoi(v + 1); return (i >= 0 && i < NFILES) ? ncids[i] : -1; }
    if (!strncmp(v, "raw:", 4)) return (int)strtol(v + 4, NULL, 0);
    if (!strncmp(v, "stale:f", 7)) { int i = atoi(v + 7); return ncid_last[i]; }
    return -1;
}
static int file_slot(stmt_t *s) { const char *v = arg(s, "f"); return (v && v[0] == 'f') ? atoi(v + 1) : -1; }

/* ------------------------------------------------------------------ */
/* datatype language */
static const char *tp;   /* parse cursor */
static int terr;
static long long t_num(void) { char *e; long long v = strtoll(tp, &e, 0); if (e == tp) terr = 1; tp = e; return v; }
static void t_expect(char c) { if (*tp == c) tp++; else terr = 1; }
static int t_pairs(int *a, MPI_Aint *b, int max) { /* "x:y;x:y" until ',' */
    int n = 0;
    while (n < max && !terr) {
        a[n] = (int)t_num(); t_expect(':'); b[n] = (MPI_Aint)t_num(); n++;
        if (*tp == ';') tp++; else break;
    }
    return n;
}
static int t_list(int *a, int max) { int n = 0; while (n < max && !terr) { a[n++] = (int)t_num(); if (*tp == ':') tp++; else break; } return n; }
static MPI_Datatype t_parse(int *derived);
static MPI_Datatype t_inner(void) { int d; MPI_Datatype t = t_parse(&d); return t; }
static void t_free_if_derived(MPI_Datatype *t) {
    int ni, na, nd, comb;
    if (*t == MPI_DATATYPE_NULL) return;
    PMPI_Type_get_envelope(*t, &ni, &na, &nd, &comb);
    if (comb != MPI_COMBINER_NAMED) PMPI_Type_free(t);
}
static MPI_Datatype t_parse(int *derived) {
    char name[32]; int i = 0;
    MPI_Datatype out = MPI_DATATYPE_NULL, in;
    while (*tp && ((*tp >= 'a' && *tp <= 'z') || (*tp >= '0' && *tp <= '9') || *tp == '_') && i < 31) name[i++] = *tp++;
    name[i] = 0;
    *derived = 1;
    if (*tp != '(') {
        *derived = 0;
        if (name[0] == 't' && name[1] >= '0' && name[1] <= '9') { int k = atoi(name + 1); if (k < NSLOT && type_set[k]) { PMPI_Type_dup(types[k], &out); *derived = 1; return out; } terr = 1; return out; }
        return prim_type(name);
    }
    tp++;
    if (!strcmp(name, "ctg")) {
        int n = (int)t_num(); t_expect(','); in = t_inner();
        if (!terr) PMPI_Type_contiguous(n, in, &out);
    } else if (!strcmp(name, "vec") || !strcmp(name, "hvec")) {
        int c = (int)t_num(); t_expect(','); int b = (int)t_num(); t_expect(','); long long st = t_num(); t_expect(','); in = t_inner();
        if (!terr) { if (name[0] == 'v') PMPI_Type_vector(c, b, (int)st, in, &out); else PMPI_Type_create_hvector(c, b, (MPI_Aint)st, in, &out); }
    } else if (!strcmp(name, "idx") || !strcmp(name, "hidx") || !strcmp(name, "struct")) {
        /* number of pairs = number of ':' before the ',' that ends the list */
        int maxp = 1; for (const char *q = tp; *q && *q != ','; q++) if (*q == ';') maxp++;
        int *bl = malloc(sizeof(int) * maxp), *d = malloc(sizeof(int) * maxp); MPI_Aint *dp = malloc(sizeof(MPI_Aint) * maxp);
        MPI_Datatype *ts = malloc(sizeof(MPI_Datatype) * maxp);
        int n = t_pairs(bl, dp, maxp); t_expect(','); in = t_inner();
        if (!terr) {
            if (!strcmp(name, "idx")) { for (int j = 0; j < n; j++) d[j] = (int)dp[j]; PMPI_Type_indexed(n, bl, d, in, &out); }
            else if (!strcmp(name, "hidx")) PMPI_Type_create_hindexed(n, bl, dp, in, &out);
            else { for (int j = 0; j < n; j++) ts[j] = in; PMPI_Type_create_struct(n, bl, dp, ts, &out); }
        }
        free(bl); free(d); free(dp); free(ts);
    } else if (!strcmp(name, "sub")) {
        int sz[16], ss[16], st[16];
        int n = t_list(sz, 16); t_expect(';'); t_list(ss, 16); t_expect(';'); t_list(st, 16); t_expect(','); in = t_inner();
        if (!terr) PMPI_Type_create_subarray(n, sz, ss, st, MPI_ORDER_C, in, &out);
    } else if (!strcmp(name, "rsz")) {
        long long lb = t_num(); t_expect(','); long long ext = t_num(); t_expect(','); in = t_inner();
        if (!terr) PMPI_Type_create_resized(in, (MPI_Aint)lb, (MPI_Aint)ext, &out);
    } else if (!strcmp(name, "dup")) {
        in = t_inner();
        if (!terr) PMPI_Type_dup(in, &out);
    } else { terr = 1; return out; }
    t_expect(')');
    t_free_if_derived(&in);
    return out;
}
static MPI_Datatype make_type(const char *spec, int *derived) {
    tp = spec; terr = 0;
    MPI_Datatype t = t_parse(derived);
    if (terr || *tp) { return MPI_DATATYPE_NULL; }
    if (*derived) PMPI_Type_commit(&t);
    return t;
}
/* datatype reference in a data op: "t3" (slot) or primitive name */
static MPI_Datatype type_ref(const char *v) {
    if (!v) return MPI_DATATYPE_NULL;
    if (v[0] == 't' && v[1] >= '0' && v[1] <= '9') { int k = atoi(v + 1); return (k < NSLOT && type_set[k]) ? types[k] : MPI_DATATYPE_NULL; }
    return prim_type(v);
}

/* ------------------------------------------------------------------ */
/* guarded buffers */
static void buf_free(int i) { if (bufs[i].blk) { free(bufs[i].blk); free(bufs[i].init); bufs[i].blk = NULL; bufs[i].init = NULL; bufs[i].size = 0; } }
static unsigned char *buf_ptr(int i) { return bufs[i].blk ? bufs[i].blk + GUARD : NULL; }
static int buf_guards_ok(int i) {
    unsigned char *b = bufs[i].blk; size_t n = bufs[i].size;
    for (int j = 0; j < GUARD; j++) if (b[j] != 0xA5 || b[GUARD + n + j] != 0x5A) return 0;
    return 1;
}
static void *buf_arg(stmt_t *s, const char *key, int *slot) {
    const char *v = arg(s, key); *slot = -1;
    if (!v || !strcmp(v, "NULL")) return NULL;
    if (v[0] == 'b') { int i = atoi(v + 1); if (i >= 0 && i < NSLOT && bufs[i].blk) { *slot = i; return buf_ptr(i); } }
    return NULL;
}

/* ------------------------------------------------------------------ */
struct callargs {
    int ncid, varid, num; int *req;
    MPI_Offset *start, *count, *stride, *imap;
    MPI_Offset **starts, **counts, **strides, **imaps;
    void *buf; MPI_Offset bufcount; MPI_Datatype buftype, filetype;
    int *varids; void **bufs; MPI_Offset *bufcounts; MPI_Datatype *buftypes;
};
#include "calls.inc"

static const char *KINDS[] = {"put", "get", "iput", "iget", "bput"};
static const char *FORMS[] = {"var", "var1", "vara", "vars", "varm", "varn", "vard"};
static int lookup(const char **tab, int n, const char *s) { if (!s) return -1; for (int i = 0; i < n; i++) if (!strcmp(tab[i], s)) return i; return -1; }

static int req_value(const char *t) {
    if (t[0] == 'q') return reqs[atoi(t + 1) % NSLOT];
    if (!strcmp(t, "null")) return NC_REQ_NULL;
    if (!strncmp(t, "raw:", 4)) return (int)strtol(t + 4, NULL, 0);
    return NC_REQ_NULL;
}

static void json_name(sb_t *o, const char *key, const char *name) { sb_printf(o, ",\"%s\":", key); sb_hex(o, name, strlen(name)); }

static size_t xtype_size(nc_type t) {
    switch (t) { case NC_BYTE: case NC_CHAR: case NC_UBYTE: return 1; case NC_SHORT: case NC_USHORT: return 2;
    case NC_INT: case NC_UINT: case NC_FLOAT: return 4; case NC_DOUBLE: case NC_INT64: case NC_UINT64: return 8; default: return 0; }
}
static int xtype_mt(nc_type t) { /* memory type code holding the external type natively */
    switch (t) { case NC_BYTE: return 1; case NC_CHAR: return 0; case NC_UBYTE: return 2; case NC_SHORT: return 3; case NC_USHORT: return 4;
    case NC_INT: return 5; case NC_UINT: return 6; case NC_FLOAT: return 8; case NC_DOUBLE: return 9; case NC_INT64: return 10; case NC_UINT64: return 11; default: return -1; }
}

/* dump attributes of one variable (or global) */
static void dump_atts(sb_t *o, int ncid, int varid, int natts) {
    sb_put(o, "[");
    for (int i = 0; i < natts; i++) {
        char name[NC_MAX_NAME + 1] = ""; nc_type xt = 0; MPI_Offset len = 0;
        int e1 = ncmpi_inq_attname(ncid, varid, i, name);
        int e2 = ncmpi_inq_att(ncid, varid, name, &xt, &len);
        int id = -1; int e3 = ncmpi_inq_attid(ncid, varid, name, &id);
        sb_printf(o, "%s{\"e\":[%d,%d,%d],\"id\":%d,\"xt\":%d,\"len\":%lld", i ? "," : "", e1, e2, e3, id, (int)xt, (long long)len);
        json_name(o, "name", name);
        size_t xs = xtype_size(xt);
        if (e2 == NC_NOERR && xs && len >= 0 && len < (1LL << 26)) {
            void *v = malloc(len * xs + 8);
            int e4 = ncmpi_get_att(ncid, varid, name, v);
            sb_printf(o, ",\"ge\":%d,\"val\":", e4); sb_hex(o, v, len * xs);
            free(v);
        }
        sb_put(o, "}");
    }
    sb_put(o, "]");
}

static void op_dumpall(stmt_t *s, sb_t *o) {
    int ncid = file_arg(s); int withdata = (int)argll(s, "data", 0); int coll = (int)argll(s, "coll", 1);
    long long maxbytes = argll(s, "maxbytes", 1 << 24);
    int nd = -1, nv = -1, ng = -1, ud = -2, fmt = -1;
    int e = ncmpi_inq(ncid, &nd, &nv, &ng, &ud);
    sb_printf(o, ",\"rc\":%d,\"ndims\":%d,\"nvars\":%d,\"ngatts\":%d,\"unlim\":%d", e, nd, nv, ng, ud);
    if (e != NC_NOERR) return;
    ncmpi_inq_format(ncid, &fmt);
    MPI_Offset hs = -1, he = -1, rs = -1; int nrv = -1, nfv = -1;
    int e1 = ncmpi_inq_header_size(ncid, &hs), e2 = ncmpi_inq_header_extent(ncid, &he), e3 = ncmpi_inq_recsize(ncid, &rs);
    ncmpi_inq_num_rec_vars(ncid, &nrv); ncmpi_inq_num_fix_vars(ncid, &nfv);
    sb_printf(o, ",\"fmt\":%d,\"hsize\":%lld,\"hext\":%lld,\"recsize\":%lld,\"he\":[%d,%d,%d],\"nrecvars\":%d,\"nfixvars\":%d", fmt, (long long)hs, (long long)he, (long long)rs, e1, e2, e3, nrv, nfv);
    MPI_Offset numrecs = -1;
    if (ud >= 0) ncmpi_inq_dimlen(ncid, ud, &numrecs);
    sb_printf(o, ",\"numrecs\":%lld", (long long)numrecs);
    sb_put(o, ",\"dims\":[");
    MPI_Offset *dlen = calloc(nd + 1, sizeof(MPI_Offset));
    for (int i = 0; i < nd; i++) {
        char name[NC_MAX_NAME + 1] = ""; MPI_Offset len = -1; int id = -1;
        int ea = ncmpi_inq_dim(ncid, i, name, &len); int eb = ncmpi_inq_dimid(ncid, name, &id);
        dlen[i] = len;
        sb_printf(o, "%s{\"e\":[%d,%d],\"len\":%lld,\"id\":%d", i ? "," : "", ea, eb, (long long)len, id);
        json_name(o, "name", name); sb_put(o, "}");
    }
    sb_put(o, "],\"gatts\":");
    dump_atts(o, ncid, NC_GLOBAL, ng);
    sb_put(o, ",\"vars\":[");
    for (int v = 0; v < nv; v++) {
        char name[NC_MAX_NAME + 1] = ""; nc_type xt = 0; int vnd = 0, dimids[NC_MAX_VAR_DIMS > 1024 ? 1024 : NC_MAX_VAR_DIMS], na = 0, id = -1;
        int ea = ncmpi_inq_varndims(ncid, v, &vnd);
        if (ea != NC_NOERR || vnd > 1024) { sb_printf(o, "%s{\"e\":[%d]}", v ? "," : "", ea); continue; }
        ea = ncmpi_inq_var(ncid, v, name, &xt, &vnd, dimids, &na);
        int eb = ncmpi_inq_varid(ncid, name, &id);
        MPI_Offset off = -1; int ec = ncmpi_inq_varoffset(ncid, v, &off);
        int nofill = -1; unsigned char fv[16]; memset(fv, 0, 16);
        int ed = ncmpi_inq_var_fill(ncid, v, &nofill, fv);
        sb_printf(o, "%s{\"e\":[%d,%d,%d,%d],\"id\":%d,\"xt\":%d,\"off\":%lld,\"nofill\":%d,\"fv\":", v ? "," : "", ea, eb, ec, ed, id, (int)xt, (long long)off, nofill);
        sb_hex(o, fv, xtype_size(xt));
        json_name(o, "name", name);
        sb_put(o, ",\"dimids\":["); for (int j = 0; j < vnd; j++) sb_printf(o, "%s%d", j ? "," : "", dimids[j]); sb_put(o, "]");
        sb_put(o, ",\"atts\":"); dump_atts(o, ncid, v, na);
        if (withdata) {
            long long ne = 1; int bad = 0;
            for (int j = 0; j < vnd; j++) { if (dimids[j] < 0 || dimids[j] >= nd) { bad = 1; break; } ne *= dlen[dimids[j]]; if (ne > maxbytes) break; }
            size_t xs = xtype_size(xt); int mt = xtype_mt(xt);
            if (!bad && xs && mt >= 0 && ne * (long long)xs <= maxbytes) {
                unsigned char *b = malloc(ne * xs + 16); memset(b, 0xEE, ne * xs + 16);
                struct callargs a; memset(&a, 0, sizeof a); a.ncid = ncid; a.varid = v; a.buf = b;
                int eg = api_call(1, 0, mt, coll, &a);
                sb_printf(o, ",\"de\":%d,\"data\":", eg); sb_hex(o, b, ne * xs);
                free(b);
            } else sb_put(o, ",\"data\":null");
        }
        sb_put(o, "}");
    }
    sb_put(o, "]");
    free(dlen);
}

/* ------------------------------------------------------------------ */
static int copy_file(const char *src, const char *dst) {
    int in = open(src, O_RDONLY); if (in < 0) return -errno;
    int out = open(dst, O_WRONLY | O_CREAT | O_TRUNC, 0644); if (out < 0) { close(in); return -errno; }
    char b[1 << 16]; ssize_t n;
    while ((n = read(in, b, sizeof b)) > 0) if (write(out, b, n) != n) break;
    close(in); close(out); return 0;
}
static void full_path(const char *name, char *out, size_t n) {
    if (name[0] == '/') snprintf(out, n, "%s", name); else snprintf(out, n, "%s/%s", curdir, name);
}

static void op_data(stmt_t *s, sb_t *o) {
    int kind = lookup(KINDS, 5, arg(s, "api")), form = lookup(FORMS, 7, arg(s, "form"));
    int coll = (int)argll(s, "coll", 0); int t = mt_code(arg(s, "mt") ? arg(s, "mt") : "flex");
    struct callargs a; memset(&a, 0, sizeof a);
    int n1, n2, n3, n4, ns = 0, nc = 0, slot;
    a.ncid = file_arg(s); a.varid = (int)argll(s, "v", 0);
    a.start = parse_offs(arg(s, "start"), &n1); a.count = parse_offs(arg(s, "count"), &n2);
    a.stride = parse_offs(arg(s, "stride"), &n3); a.imap = parse_offs(arg(s, "imap"), &n4);
    a.starts = parse_offs2(arg(s, "starts"), &ns); a.counts = parse_offs2(arg(s, "counts"), &nc);
    a.num = (int)argll(s, "num", ns);
    a.buf = buf_arg(s, "buf", &slot);
    a.bufcount = argll(s, "bufcount", -1);
    a.buftype = type_ref(arg(s, "buftype"));
    a.filetype = type_ref(arg(s, "ftype"));
    int reqv = NC_REQ_NULL; a.req = &reqv;
    const char *rq = arg(s, "req");
    if (rq && !strcmp(rq, "NULL")) a.req = NULL;
    int rc = api_call(kind, form, t, coll, &a);
    sb_printf(o, ",\"rc\":%d", rc);
    if (kind >= 2) { sb_printf(o, ",\"req\":%d", reqv); if (rq && rq[0] == 'q') reqs[atoi(rq + 1) % NSLOT] = reqv; }
    if (slot >= 0) {
        int isput = (kind == 0 || kind == 2 || kind == 4);
        sb_printf(o, ",\"guards\":%d", buf_guards_ok(slot));
        if (isput) sb_printf(o, ",\"same\":%d", memcmp(buf_ptr(slot), bufs[slot].init, bufs[slot].size) == 0);
        if (argll(s, "rb", 0)) { sb_put(o, ",\"hex\":"); sb_hex(o, buf_ptr(slot), bufs[slot].size); }
    }
    free(a.start); free(a.count); free(a.stride); free(a.imap); free_offs2(a.starts, ns); free_offs2(a.counts, nc);
}

static void op_mdata(stmt_t *s, sb_t *o) {
    int isput = !strcmp(arg(s, "api"), "mput"); int form = lookup(FORMS, 5, arg(s, "form"));
    int coll = (int)argll(s, "coll", 0); int t = mt_code(arg(s, "mt") ? arg(s, "mt") : "flex");
    struct callargs a; memset(&a, 0, sizeof a);
    int nv, ns, nc, nst, nim, nb = 0, nbc;
    a.ncid = file_arg(s);
    a.varids = parse_ints(arg(s, "v"), &nv);
    a.starts = parse_offs2(arg(s, "starts"), &ns); a.counts = parse_offs2(arg(s, "counts"), &nc);
    a.strides = parse_offs2(arg(s, "strides"), &nst); a.imaps = parse_offs2(arg(s, "imaps"), &nim);
    a.num = (int)argll(s, "num", nv);
    a.bufcounts = parse_offs(arg(s, "bufcounts"), &nbc);
    int slots[256]; void *bp[256]; MPI_Datatype bt[256];
    const char *bl = arg(s, "bufs");
    if (bl) { char *d = strdup(bl), *sv; for (char *tk = strtok_r(d, ",", &sv); tk && nb < 256; tk = strtok_r(NULL, ",", &sv)) { int i = atoi(tk + 1); slots[nb] = i; bp[nb] = buf_ptr(i); nb++; } free(d); }
    a.bufs = bp;
    const char *tl = arg(s, "buftypes"); int nt = 0;
    if (tl) { char *d = strdup(tl), *sv; for (char *tk = strtok_r(d, ",", &sv); tk && nt < 256; tk = strtok_r(NULL, ",", &sv)) bt[nt++] = type_ref(tk); free(d); }
    a.buftypes = bt;
    int rc = api_mcall(isput, form, t, coll, &a);
    sb_printf(o, ",\"rc\":%d,\"bufs\":[", rc);
    for (int i = 0; i < nb; i++) {
        sb_printf(o, "%s{\"guards\":%d,\"same\":%d", i ? "," : "", buf_guards_ok(slots[i]), memcmp(buf_ptr(slots[i]), bufs[slots[i]].init, bufs[slots[i]].size) == 0);
        if (argll(s, "rb", 0)) { sb_put(o, ",\"hex\":"); sb_hex(o, buf_ptr(slots[i]), bufs[slots[i]].size); }
        sb_put(o, "}");
    }
    sb_put(o, "]");
    free(a.varids); free_offs2(a.starts, ns); free_offs2(a.counts, nc); free_offs2(a.strides, nst); free_offs2(a.imaps, nim); free(a.bufcounts);
}

static void op_wait(stmt_t *s, sb_t *o, int cancel) {
    int ncid = file_arg(s); int coll = (int)argll(s, "coll", 0); int wantst = (int)argll(s, "st", 1);
    const char *rl = arg(s, "reqs");
    int ids[NSLOT], st[NSLOT], n = 0; char *toks[NSLOT]; char *d = NULL;
    int count; int *idp = ids, *stp = wantst ? st : NULL;
    if (!strcmp(rl, "ALL")) { count = NC_REQ_ALL; idp = NULL; }
    else if (!strcmp(rl, "GETALL")) { count = NC_GET_REQ_ALL; idp = NULL; }
    else if (!strcmp(rl, "PUTALL")) { count = NC_PUT_REQ_ALL; idp = NULL; }
    else {
        d = strdup(rl); char *sv;
        for (char *tk = strtok_r(d, ",", &sv); tk && n < NSLOT; tk = strtok_r(NULL, ",", &sv)) { toks[n] = tk; ids[n] = req_value(tk); st[n] = -77777; n++; }
        count = n;
        if (arg(s, "count")) count = (int)argll(s, "count", n);
        if (arg(s, "idsnull")) idp = NULL;
    }
    int rc;
    if (cancel) rc = ncmpi_cancel(ncid, count, idp, stp);
    else rc = coll ? ncmpi_wait_all(ncid, count, idp, stp) : ncmpi_wait(ncid, count, idp, stp);
    sb_printf(o, ",\"rc\":%d,\"ids\":[", rc);
    for (int i = 0; i < n; i++) { sb_printf(o, "%s%d", i ? "," : "", ids[i]); if (toks[i][0] == 'q') reqs[atoi(toks[i] + 1) % NSLOT] = ids[i]; }
    sb_put(o, "],\"st\":[");
    if (stp) for (int i = 0; i < n; i++) sb_printf(o, "%s%d", i ? "," : "", st[i]);
    sb_put(o, "]");
    free(d);
}

static void op_inq(stmt_t *s, sb_t *o) {
    const char *w = arg(s, "what"); int ncid = file_arg(s); int v = (int)argll(s, "v", 0);
    char *name = arg(s, "name") ? unhex_str(arg(s, "name")) : NULL;
    int rc = -99999; long long r[8]; int nr = 0; char sname[NC_MAX_NAME * 2 + 8]; int havename = 0; sname[0] = 0;
    int i1 = -7, i2 = -7, i3 = -7, i4 = -7; MPI_Offset o1 = -7;
    if (!strcmp(w, "inq")) { rc = ncmpi_inq(ncid, &i1, &i2, &i3, &i4); r[0] = i1; r[1] = i2; r[2] = i3; r[3] = i4; nr = 4; }
    else if (!strcmp(w, "ndims")) { rc = ncmpi_inq_ndims(ncid, &i1); r[0] = i1; nr = 1; }
    else if (!strcmp(w, "nvars")) { rc = ncmpi_inq_nvars(ncid, &i1); r[0] = i1; nr = 1; }
    else if (!strcmp(w, "natts")) { rc = ncmpi_inq_natts(ncid, &i1); r[0] = i1; nr = 1; }
    else if (!strcmp(w, "unlimdim")) { rc = ncmpi_inq_unlimdim(ncid, &i1); r[0] = i1; nr = 1; }
    else if (!strcmp(w, "format")) { rc = ncmpi_inq_format(ncid, &i1); r[0] = i1; nr = 1; }
    else if (!strcmp(w, "dimid")) { rc = ncmpi_inq_dimid(ncid, name, &i1); r[0] = i1; nr = 1; }
    else if (!strcmp(w, "dim")) { rc = ncmpi_inq_dim(ncid, v, sname, &o1); r[0] = o1; nr = 1; havename = 1; }
    else if (!strcmp(w, "dimname")) { rc = ncmpi_inq_dimname(ncid, v, sname); havename = 1; }
    else if (!strcmp(w, "dimlen")) { rc = ncmpi_inq_dimlen(ncid, v, &o1); r[0] = o1; nr = 1; }
    else if (!strcmp(w, "varid")) { rc = ncmpi_inq_varid(ncid, name, &i1); r[0] = i1; nr = 1; }
    else if (!strcmp(w, "varname")) { rc = ncmpi_inq_varname(ncid, v, sname); havename = 1; }
    else if (!strcmp(w, "vartype")) { nc_type t = -7; rc = ncmpi_inq_vartype(ncid, v, &t); r[0] = t; nr = 1; }
    else if (!strcmp(w, "varndims")) { rc = ncmpi_inq_varndims(ncid, v, &i1); r[0] = i1; nr = 1; }
    else if (!strcmp(w, "varnatts")) { rc = ncmpi_inq_varnatts(ncid, v, &i1); r[0] = i1; nr = 1; }
    else if (!strcmp(w, "varoffset")) { rc = ncmpi_inq_varoffset(ncid, v, &o1); r[0] = o1; nr = 1; }
    else if (!strcmp(w, "recsize")) { rc = ncmpi_inq_recsize(ncid, &o1); r[0] = o1; nr = 1; }
    else if (!strcmp(w, "header_size")) { rc = ncmpi_inq_header_size(ncid, &o1); r[0] = o1; nr = 1; }
    else if (!strcmp(w, "header_extent")) { rc = ncmpi_inq_header_extent(ncid, &o1); r[0] = o1; nr = 1; }
    else if (!strcmp(w, "put_size")) { rc = ncmpi_inq_put_size(ncid, &o1); r[0] = o1; nr = 1; }
    else if (!strcmp(w, "get_size")) { rc = ncmpi_inq_get_size(ncid, &o1); r[0] = o1; nr = 1; }
    else if (!strcmp(w, "num_rec_vars")) { rc = ncmpi_inq_num_rec_vars(ncid, &i1); r[0] = i1; nr = 1; }
    else if (!strcmp(w, "num_fix_vars")) { rc = ncmpi_inq_num_fix_vars(ncid, &i1); r[0] = i1; nr = 1; }
    else if (!strcmp(w, "nreqs")) { rc = ncmpi_inq_nreqs(ncid, &i1); r[0] = i1; nr = 1; }
    else if (!strcmp(w, "buffer_usage")) { rc = ncmpi_inq_buffer_usage(ncid, &o1); r[0] = o1; nr = 1; }
    else if (!strcmp(w, "buffer_size")) { rc = ncmpi_inq_buffer_size(ncid, &o1); r[0] = o1; nr = 1; }
    else if (!strcmp(w, "att")) { nc_type t = -7; rc = ncmpi_inq_att(ncid, v, name, &t, &o1); r[0] = t; r[1] = o1; nr = 2; }
    else if (!strcmp(w, "attid")) { rc = ncmpi_inq_attid(ncid, v, name, &i1); r[0] = i1; nr = 1; }
    else if (!strcmp(w, "attname")) { rc = ncmpi_inq_attname(ncid, v, (int)argll(s, "attnum", 0), sname); havename = 1; }
    else if (!strcmp(w, "atttype")) { nc_type t = -7; rc = ncmpi_inq_atttype(ncid, v, name, &t); r[0] = t; nr = 1; }
    else if (!strcmp(w, "attlen")) { rc = ncmpi_inq_attlen(ncid, v, name, &o1); r[0] = o1; nr = 1; }
    else if (!strcmp(w, "var_fill")) { unsigned char fv[16]; memset(fv, 0, 16); rc = ncmpi_inq_var_fill(ncid, v, &i1, fv); r[0] = i1; nr = 1; sb_put(o, ",\"fv\":"); sb_hex(o, fv, 8); }
    else if (!strcmp(w, "var")) {
        int nd = 0; int e0 = ncmpi_inq_varndims(ncid, v, &nd); nc_type t = -7; int dimids[1024];
        if (e0 == NC_NOERR && nd <= 1024) { rc = ncmpi_inq_var(ncid, v, sname, &t, &i1, dimids, &i2); havename = 1; r[0] = t; r[1] = i1; r[2] = i2; nr = 3;
            sb_put(o, ",\"dimids\":["); for (int j = 0; j < nd && rc == NC_NOERR; j++) sb_printf(o, "%s%d", j ? "," : "", dimids[j]); sb_put(o, "]"); }
        else rc = e0;
    }
    else if (!strcmp(w, "path")) { char p[2048] = ""; rc = ncmpi_inq_path(ncid, &i1, p); r[0] = i1; nr = 1; }
    else if (!strcmp(w, "striping")) { rc = ncmpi_inq_striping(ncid, &i1, &i2); r[0] = i1; r[1] = i2; nr = 2; }
    else if (!strcmp(w, "version")) { rc = ncmpi_inq_version(ncid, &i1); r[0] = i1; nr = 1; }
    else if (!strcmp(w, "file_format")) { char p[2048]; full_path(unhex_str(arg(s, "path")), p, sizeof p); rc = ncmpi_inq_file_format(p, &i1); r[0] = i1; nr = 1; }
    else if (!strcmp(w, "default_format")) { rc = ncmpi_inq_default_format(&i1); r[0] = i1; nr = 1; }
    else if (!strcmp(w, "files_opened")) { int ids[4096]; rc = ncmpi_inq_files_opened(&i1, ids); r[0] = i1; nr = 1; }
    else if (!strcmp(w, "malloc_size")) { rc = ncmpi_inq_malloc_size(&o1); r[0] = o1; nr = 1; }
    else if (!strcmp(w, "file_info")) {
        MPI_Info info = MPI_INFO_NULL; rc = ncmpi_inq_file_info(ncid, &info);
        sb_put(o, ",\"info\":{");
        if (rc == NC_NOERR && info != MPI_INFO_NULL) {
            int nk = 0; PMPI_Info_get_nkeys(info, &nk);
            for (int i = 0; i < nk; i++) { char k[MPI_MAX_INFO_KEY + 1], val[MPI_MAX_INFO_VAL + 1]; int fl; PMPI_Info_get_nthkey(info, i, k); PMPI_Info_get(info, k, MPI_MAX_INFO_VAL, val, &fl);
                sb_printf(o, "%s\"%s\":", i ? "," : "", k); sb_hex(o, val, strlen(val)); }
            MPI_Info_free(&info);   /* through the shim: the library created it for the caller */
        }
        sb_put(o, "}");
    }
    sb_printf(o, ",\"rc\":%d,\"r\":", rc); sb_ll_array(o, r, nr);
    if (havename) json_name(o, "name", sname);
    free(name);
}

/* quiesce: library-wide resource report */
static long long malloc_at_script_begin = 0;   /* heap the library already held when the script started (leaked by earlier scripts) */
/* number of this process's open POSIX descriptors that refer to files below the script's scratch directory
 * (the data files): with no netCDF file open there must be none */
static int fds_in_scratch(void) {
    int n = 0; DIR *d = opendir("/proc/self/fd"); if (!d) return -1;
    struct dirent *de; size_t L = strlen(curdir);
    while ((de = readdir(d))) {
        if (de->d_name[0] == '.') continue;
        char lp[64], tgt[2048]; snprintf(lp, sizeof lp, "/proc/self/fd/%s", de->d_name);
        ssize_t k = readlink(lp, tgt, sizeof tgt - 1); if (k <= 0) continue; tgt[k] = 0;
        if (L && !strncmp(tgt, curdir, L)) n++;
    }
    closedir(d); return n;
}
static void op_quiesce(sb_t *o) {
    int nopen = -1; int ids[4096]; MPI_Offset msz = -1;
    int e1 = ncmpi_inq_files_opened(&nopen, ids); int e2 = ncmpi_inq_malloc_size(&msz);
    sb_printf(o, ",\"rc\":0,\"e\":[%d,%d],\"nopen\":%d,\"malloc\":%lld,\"malloc0\":%lld,\"fds\":%d,\"ledger\":", e1, e2, nopen, (long long)msz, malloc_at_script_begin, fds_in_scratch());
    char *lj = shim_ledger_report();
    sb_put(o, lj); free(lj);
}

static void cleanup_script(sb_t *o);

/* execute one statement on this rank */
static void exec_stmt(stmt_t *s, const char *op, sb_t *o) {
    if (!strcmp(op, "data")) { op_data(s, o); return; }
    if (!strcmp(op, "mdata")) { op_mdata(s, o); return; }
    if (!strcmp(op, "wait")) { op_wait(s, o, 0); return; }
    if (!strcmp(op, "cancel")) { op_wait(s, o, 1); return; }
    if (!strcmp(op, "inq")) { op_inq(s, o); return; }
    if (!strcmp(op, "dumpall")) { op_dumpall(s, o); return; }
    if (!strcmp(op, "quiesce")) { op_quiesce(o); return; }
    int rc = -99999;
    if (!strcmp(op, "create") || !strcmp(op, "open")) {
        int slot = file_slot(s); char path[2048]; char *nm = unhex_str(arg(s, "path")); full_path(nm, path, sizeof path); free(nm);
        int mode = (int)argll(s, "mode", 0); MPI_Info info = MPI_INFO_NULL;
        const char *iv = arg(s, "info"); if (iv && iv[0] == 'i') { int k = atoi(iv + 1); if (info_set[k]) info = infos[k]; }
        MPI_Comm c = cur; const char *cv = arg(s, "comm"); if (cv && !strcmp(cv, "self")) c = MPI_COMM_SELF;
        int id = -12345;
        int *idp = &id; if (arg(s, "idnull")) idp = NULL;
        rc = (op[0] == 'c') ? ncmpi_create(c, arg(s, "pathnull") ? NULL : path, mode, info, idp) : ncmpi_open(c, arg(s, "pathnull") ? NULL : path, mode, info, idp);
        if (rc == NC_NOERR && slot >= 0) { ncids[slot] = id; ncid_open[slot] = 1; ncid_last[slot] = id; free(fpaths[slot]); fpaths[slot] = strdup(path); }
        sb_printf(o, ",\"rc\":%d,\"ncid\":%d", rc, id);
        return;
    }
    if (!strcmp(op, "close") || !strcmp(op, "abort")) {
        int slot = file_slot(s); int id = file_arg(s);
        rc = (op[0] == 'c') ? ncmpi_close(id) : ncmpi_abort(id);
        /* the id is released even when close reports an error such as NC_EPENDING */
        if (slot >= 0 && rc != NC_EBADID) { ncid_open[slot] = 0; ncids[slot] = -1; }
        sb_printf(o, ",\"rc\":%d", rc); return;
    }
    int ncid = file_arg(s);
    if (!strcmp(op, "enddef")) rc = ncmpi_enddef(ncid);
    else if (!strcmp(op, "_enddef")) rc = ncmpi__enddef(ncid, argll(s, "h_minfree", 0), argll(s, "v_align", 0), argll(s, "v_minfree", 0), argll(s, "r_align", 0));
    else if (!strcmp(op, "redef")) rc = ncmpi_redef(ncid);
    else if (!strcmp(op, "begin_indep")) rc = ncmpi_begin_indep_data(ncid);
    else if (!strcmp(op, "end_indep")) rc = ncmpi_end_indep_data(ncid);
    else if (!strcmp(op, "sync")) rc = ncmpi_sync(ncid);
    else if (!strcmp(op, "flush")) rc = ncmpi_flush(ncid);
    else if (!strcmp(op, "sync_numrecs")) rc = ncmpi_sync_numrecs(ncid);
    else if (!strcmp(op, "fence")) { int e1 = ncmpi_sync(ncid); PMPI_Barrier(cur); int e2 = ncmpi_sync(ncid); rc = e1 ? e1 : e2; }
    else if (!strcmp(op, "barrier")) { PMPI_Barrier(cur); rc = 0; }
    else if (!strcmp(op, "set_fill")) { int old = -7; rc = ncmpi_set_fill(ncid, (int)argll(s, "mode", 0), arg(s, "oldnull") ? NULL : &old); sb_printf(o, ",\"old\":%d", old); }
    else if (!strcmp(op, "set_default_format")) { int old = -7; rc = ncmpi_set_default_format((int)argll(s, "fmt", 1), &old); sb_printf(o, ",\"old\":%d", old); }
    else if (!strcmp(op, "delete")) { char path[2048]; char *nm = unhex_str(arg(s, "path")); full_path(nm, path, sizeof path); free(nm); rc = ncmpi_delete(path, MPI_INFO_NULL); }
    else if (!strcmp(op, "def_dim")) { char *nm = unhex_str(arg(s, "name")); int id = -7; rc = ncmpi_def_dim(ncid, nm, argll(s, "len", 0), &id); sb_printf(o, ",\"id\":%d", id); free(nm); }
    else if (!strcmp(op, "def_var")) {
        char *nm = unhex_str(arg(s, "name")); int nd; int *d = parse_ints(arg(s, "dims"), &nd); int id = -7;
        rc = ncmpi_def_var(ncid, nm, (nc_type)argll(s, "xt", NC_INT), (int)argll(s, "ndims", nd), d, &id);
        sb_printf(o, ",\"id\":%d", id); free(nm); free(d);
    }
    else if (!strcmp(op, "def_var_fill")) {
        unsigned char fv[16]; const char *h = arg(s, "fv"); if (h) unhex(h, fv);
        rc = ncmpi_def_var_fill(ncid, (int)argll(s, "v", 0), (int)argll(s, "nofill", 0), h ? fv : NULL);
    }
    else if (!strcmp(op, "fill_var_rec")) rc = ncmpi_fill_var_rec(ncid, (int)argll(s, "v", 0), argll(s, "rec", 0));
    else if (!strcmp(op, "rename_dim")) { char *nm = unhex_str(arg(s, "name")); rc = ncmpi_rename_dim(ncid, (int)argll(s, "v", 0), nm); free(nm); }
    else if (!strcmp(op, "rename_var")) { char *nm = unhex_str(arg(s, "name")); rc = ncmpi_rename_var(ncid, (int)argll(s, "v", 0), nm); free(nm); }
    else if (!strcmp(op, "rename_att")) { char *nm = unhex_str(arg(s, "name")), *nn = unhex_str(arg(s, "newname")); rc = ncmpi_rename_att(ncid, (int)argll(s, "v", 0), nm, nn); free(nm); free(nn); }
    else if (!strcmp(op, "del_att")) { char *nm = unhex_str(arg(s, "name")); rc = ncmpi_del_att(ncid, (int)argll(s, "v", 0), nm); free(nm); }
    else if (!strcmp(op, "copy_att")) {
        char *nm = unhex_str(arg(s, "name")); const char *t = arg(s, "f2"); int id2 = -1;
        if (t && t[0] == 'f') id2 = ncids[atoi(t + 1)]; else if (t && !strncmp(t, "raw:", 4)) id2 = atoi(t + 4);
        rc = ncmpi_copy_att(ncid, (int)argll(s, "v", 0), nm, id2, (int)argll(s, "v2", 0)); free(nm);
    }
    else if (!strcmp(op, "put_att")) {
        char *nm = unhex_str(arg(s, "name")); const char *h = arg(s, "hex"); int t = mt_code(arg(s, "mt"));
        size_t hl = h ? strlen(h) / 2 : 0; unsigned char *b = malloc(hl + 16); if (h) unhex(h, b);
        rc = api_put_att(t, ncid, (int)argll(s, "v", -1), nm, (nc_type)argll(s, "xt", NC_CHAR), argll(s, "n", 0), (h && !arg(s, "bufnull")) ? b : NULL, MPI_DATATYPE_NULL);
        free(b); free(nm);
    }
    else if (!strcmp(op, "get_att")) {
        char *nm = unhex_str(arg(s, "name")); int t = mt_code(arg(s, "mt")); size_t cap = (size_t)argll(s, "cap", 0);
        unsigned char *b = malloc(cap + 2 * GUARD); memset(b, 0xCD, cap + 2 * GUARD);
        rc = api_get_att(t, ncid, (int)argll(s, "v", -1), nm, b + GUARD, MPI_DATATYPE_NULL);
        int gok = 1; for (int j = 0; j < GUARD; j++) if (b[j] != 0xCD || b[GUARD + cap + j] != 0xCD) gok = 0;
        sb_printf(o, ",\"guards\":%d,\"hex\":", gok); sb_hex(o, b + GUARD, cap);
        free(b); free(nm);
    }
    else if (!strcmp(op, "buffer_attach")) rc = ncmpi_buffer_attach(ncid, argll(s, "size", 0));
    else if (!strcmp(op, "buffer_detach")) rc = ncmpi_buffer_detach(ncid);
    else if (!strcmp(op, "strerror")) { const char *m = ncmpi_strerror((int)argll(s, "code", 0)); rc = 0; sb_put(o, ",\"msg\":"); sb_hex(o, m, strlen(m)); }
    /* ---- harness statements ---- */
    else if (!strcmp(op, "buf")) {
        int i = atoi(arg(s, "b") + 1); size_t n = (size_t)argll(s, "size", 0); buf_free(i);
        bufs[i].blk = malloc(n + 2 * GUARD); bufs[i].init = malloc(n + 1); bufs[i].size = n;
        memset(bufs[i].blk, 0xA5, GUARD); memset(bufs[i].blk + GUARD + n, 0x5A, GUARD);
        const char *h = arg(s, "hex");
        if (h) { size_t m = strlen(h) / 2; if (m > n) m = n; unhex(h, buf_ptr(i)); if (m < n) memset(buf_ptr(i) + m, 0, n - m); }
        else memset(buf_ptr(i), (int)argll(s, "fill", 0xEE), n);
        memcpy(bufs[i].init, buf_ptr(i), n);
        return;   /* no result record */
    }
    else if (!strcmp(op, "bufset")) { /* overwrite user buffer (e.g. right after a bput) */
        int i = atoi(arg(s, "b") + 1); memset(buf_ptr(i), (int)argll(s, "fill", 0), bufs[i].size); return;
    }
    else if (!strcmp(op, "bufchk")) {
        int i = atoi(arg(s, "b") + 1); rc = 0;
        sb_printf(o, ",\"guards\":%d,\"same\":%d", buf_guards_ok(i), memcmp(buf_ptr(i), bufs[i].init, bufs[i].size) == 0);
        if (argll(s, "rb", 1)) { sb_put(o, ",\"hex\":"); sb_hex(o, buf_ptr(i), bufs[i].size); }
    }
    else if (!strcmp(op, "type")) {
        int i = atoi(arg(s, "t") + 1); int d; if (type_set[i]) { t_free_if_derived(&types[i]); type_set[i] = 0; }
        types[i] = make_type(arg(s, "spec"), &d); type_set[i] = 1;
        if (types[i] == MPI_DATATYPE_NULL && strcmp(arg(s, "spec"), "null")) { sb_put(o, ",\"err\":\"type\""); }
        return;
    }
    else if (!strcmp(op, "info")) {
        int i = atoi(arg(s, "i") + 1); if (info_set[i]) PMPI_Info_free(&infos[i]);
        PMPI_Info_create(&infos[i]); info_set[i] = 1;
        for (int j = 0; j < s->n; j++) if (!strncmp(s->k[j], "h.", 2)) { char *val = unhex_str(s->v[j]); PMPI_Info_set(infos[i], s->k[j] + 2, val); free(val); }
        return;
    }
    else if (!strcmp(op, "env")) {
        for (int j = 0; j < s->n; j++) if (!strncmp(s->k[j], "e.", 2)) {
            if (!strcmp(s->v[j], "UNSET")) unsetenv(s->k[j] + 2);
            else { char *val = unhex_str(s->v[j]); setenv(s->k[j] + 2, val, 1); free(val); }
            if (nenv < 64) envnames[nenv++] = strdup(s->k[j] + 2);
        }
        return;
    }
    else if (!strcmp(op, "snapshot")) { /* all ranks: barrier; rank 0 copies; barrier */
        char src[2048], dst[2048]; char *nm = unhex_str(arg(s, "path")); full_path(nm, src, sizeof src); free(nm);
        full_path(arg(s, "to"), dst, sizeof dst);
        PMPI_Barrier(cur); rc = 0; if (krank == 0) rc = copy_file(src, dst); PMPI_Barrier(cur);
    }
    else if (!strcmp(op, "writefile")) { /* rank-local: create a file from hex or a sentinel pattern */
        char p[2048]; char *nm = unhex_str(arg(s, "path")); full_path(nm, p, sizeof p); free(nm);
        FILE *f = fopen(p, "wb"); rc = f ? 0 : -errno;
        if (f) { const char *h = arg(s, "hex"); if (h) { size_t n = strlen(h) / 2; unsigned char *b = malloc(n + 1); unhex(h, b); fwrite(b, 1, n, f); free(b); }
            long long n = argll(s, "sentinel", 0); for (long long i = 0; i < n; i++) fputc("SENTINEL"[i % 8], f); fclose(f); }
    }
    else if (!strcmp(op, "symlink")) { char a[2048], b[2048]; char *x = unhex_str(arg(s, "target")), *y = unhex_str(arg(s, "path")); full_path(x, a, sizeof a); full_path(y, b, sizeof b); rc = symlink(a, b) ? -errno : 0; free(x); free(y); }
    else if (!strcmp(op, "exists")) { char p[2048]; char *nm = unhex_str(arg(s, "path")); full_path(nm, p, sizeof p); free(nm); struct stat st; rc = 0; int ex = (lstat(p, &st) == 0); sb_printf(o, ",\"exists\":%d,\"size\":%lld", ex, ex ? (long long)st.st_size : -1LL); }
    else if (!strcmp(op, "listdir")) {
        char p[2048]; char *nm = unhex_str(arg(s, "path")); full_path(nm, p, sizeof p); free(nm);
        DIR *d = opendir(p); rc = d ? 0 : -errno; sb_put(o, ",\"names\":[");
        if (d) { struct dirent *e; int first = 1; while ((e = readdir(d))) { if (e->d_name[0] == '.') continue; sb_printf(o, "%s\"%s\"", first ? "" : ",", e->d_name); first = 0; } closedir(d); }
        sb_put(o, "]");
    }
    else if (!strcmp(op, "pread")) { /* rank-local POSIX read at a (large) offset */
        char p[2048]; char *nm = unhex_str(arg(s, "path")); full_path(nm, p, sizeof p); free(nm);
        int fd = open(p, O_RDONLY); rc = fd < 0 ? -errno : 0; size_t n = (size_t)argll(s, "len", 0); unsigned char *b = calloc(n + 1, 1);
        ssize_t got = fd < 0 ? -1 : pread(fd, b, n, (off_t)argll(s, "off", 0)); if (fd >= 0) close(fd);
        sb_printf(o, ",\"got\":%lld,\"hex\":", (long long)got); sb_hex(o, b, got > 0 ? got : 0); free(b);
    }
    else if (!strcmp(op, "fault")) { shim_arm_fault((int)argll(s, "ordinal", 0), (int)argll(s, "cls", 0), (int)argll(s, "suppress", 0)); rc = 0; }
    else if (!strcmp(op, "abandon")) { /* forget every open file without closing it (fault runs: ranks may be in different states) */
        for (int i = 0; i < NFILES; i++) { ncid_open[i] = 0; ncids[i] = -1; }
        shim_stop_matching();
        rc = 0;
    }
    else if (!strcmp(op, "cleanup")) { cleanup_script(o); rc = 0; }
    else { sb_put(o, ",\"err\":\"unknown op\""); }
    sb_printf(o, ",\"rc\":%d", rc);
}

static void cleanup_script(sb_t *o) {
    /* close whatever the script left open, free harness objects, restore environment */
    sb_put(o, ",\"closed\":[");
    int first = 1;
    for (int i = 0; i < NFILES; i++) if (ncid_open[i]) {
        int rc = ncmpi_close(ncids[i]);
        if (rc != NC_NOERR && rc != NC_EPENDING) { /* e.g. define mode with errors: abort */ ncmpi_abort(ncids[i]); }
        sb_printf(o, "%s[%d,%d]", first ? "" : ",", i, rc); first = 0; ncid_open[i] = 0; ncids[i] = -1;
    }
    sb_put(o, "]");
    for (int i = 0; i < NSLOT; i++) {
        buf_free(i);
        if (type_set[i]) { t_free_if_derived(&types[i]); type_set[i] = 0; }
        if (info_set[i]) { PMPI_Info_free(&infos[i]); info_set[i] = 0; }
        reqs[i] = NC_REQ_NULL;
    }
    for (int i = 0; i < nenv; i++) { unsetenv(envnames[i]); free(envnames[i]); }
    nenv = 0;
    int old; ncmpi_set_default_format(NC_FORMAT_CLASSIC, &old);
}

static int in_ranks(const char *spec, int r) {
    if (spec[0] == '*') return 1;
    const char *p = spec;
    while (*p) { char *e; long v = strtol(p, &e, 10); if (e == p) break; if (v == r) return 1; p = (*e == ',') ? e + 1 : e; }
    return 0;
}

/* run a whole script text on this rank; returns malloc'd JSON array text of this rank's results */
static char *run_script(char *text, int *k_out, char *id_out) {
    sb_t out = {0}; sb_put(&out, "[");
    char *save = NULL; int first = 1; int k = 1;
    char *line = strtok_r(text, "\n", &save);
    /* header */
    if (line && !strncmp(line, "SCRIPT", 6)) {
        char *p;
        if ((p = strstr(line, " k="))) k = atoi(p + 3);
        if ((p = strstr(line, " dir="))) { sscanf(p + 5, "%1023s", curdir); }
        if ((p = strstr(line, " id="))) { sscanf(p + 4, "%63s", id_out); }
        int match = 0; if ((p = strstr(line, " match="))) match = atoi(p + 7);
        *k_out = k;
        if (wrank >= k) { free(out.p); return NULL; }
        cur = comm_k[k]; PMPI_Comm_rank(cur, &krank); PMPI_Comm_size(cur, &ksize);
        shim_begin_script(cur, match && k > 1);
        { MPI_Offset m0 = 0; ncmpi_inq_malloc_size(&m0); malloc_at_script_begin = (long long)m0; }
        line = strtok_r(NULL, "\n", &save);
    }
    for (; line; line = strtok_r(NULL, "\n", &save)) {
        if (!strcmp(line, "END")) break;
        if (line[0] == '#' || !line[0]) continue;
        /* <n>[!] <ranks> <op> k=v ... */
        stmt_t st; st.n = 0;
        char *sv2 = NULL; char *tn = strtok_r(line, " ", &sv2); char *tr = strtok_r(NULL, " ", &sv2); char *top = strtok_r(NULL, " ", &sv2);
        if (!tn || !tr || !top) continue;
        int stepend = (tn[strlen(tn) - 1] == '!');
        long n = strtol(tn, NULL, 10);
        if (!in_ranks(tr, krank)) continue;
        for (char *t = strtok_r(NULL, " ", &sv2); t && st.n < MAXTOK; t = strtok_r(NULL, " ", &sv2)) {
            char *eq = strchr(t, '='); if (!eq) { st.k[st.n] = t; st.v[st.n] = ""; } else { *eq = 0; st.k[st.n] = t; st.v[st.n] = eq + 1; }
            st.n++;
        }
        shim_set_step((int)n);
        size_t mark = out.n;
        sb_printf(&out, "%s{\"n\":%ld", first ? "" : ",", n);
        size_t mark2 = out.n;
        exec_stmt(&st, top, &out);
        if (out.n == mark2) { out.n = mark; out.p[out.n] = 0; }   /* silent statement */
        else { sb_put(&out, "}"); first = 0; }
        if (stepend) shim_step_end();
    }
    { /* implicit cleanup */
        shim_set_step(-1);
        sb_printf(&out, "%s{\"n\":-1", first ? "" : ",");
        cleanup_script(&out);
        sb_put(&out, ",\"shim\":"); char *sj = shim_script_report(); sb_put(&out, sj); free(sj);
        sb_put(&out, "}");
    }
    shim_end_script();
    sb_put(&out, "]");
    return out.p;
}

/* gather per-rank result arrays on rank 0 of cur and emit one JSON line */
static char *gather_results(char *mine, const char *id) {
    int len = (int)strlen(mine); int *lens = NULL, *disp = NULL; char *all = NULL;
    if (krank == 0) { lens = malloc(ksize * sizeof(int)); disp = malloc(ksize * sizeof(int)); }
    PMPI_Gather(&len, 1, MPI_INT, lens, 1, MPI_INT, 0, cur);
    int tot = 0;
    if (krank == 0) { for (int i = 0; i < ksize; i++) { disp[i] = tot; tot += lens[i]; } all = malloc(tot + 1); }
    PMPI_Gatherv(mine, len, MPI_CHAR, all, lens, disp, MPI_CHAR, 0, cur);
    char *res = NULL;
    if (krank == 0) {
        sb_t o = {0}; sb_printf(&o, "{\"id\":\"%s\",\"k\":%d,\"ranks\":[", id, ksize);
        for (int i = 0; i < ksize; i++) { if (i) sb_put(&o, ","); sb_need(&o, lens[i]); memcpy(o.p + o.n, all + disp[i], lens[i]); o.n += lens[i]; o.p[o.n] = 0; }
        sb_put(&o, "]}\n");
        res = o.p; free(all); free(lens); free(disp);
    }
    return res;
}

static void make_comms(void) {
    for (int k = 1; k <= wsize && k <= 64; k++) PMPI_Comm_split(MPI_COMM_WORLD, wrank < k ? 0 : MPI_UNDEFINED, wrank, &comm_k[k]);
}

static char *read_script_fifo(FILE *f) { /* lines until END */
    sb_t s = {0}; char *line = NULL; size_t cap = 0; ssize_t n;
    while ((n = getline(&line, &cap, f)) > 0) {
        sb_need(&s, n); memcpy(s.p + s.n, line, n); s.n += n; s.p[s.n] = 0;
        if (!strcmp(line, "END\n") || !strcmp(line, "QUIT\n")) { free(line); return s.p; }
    }
    free(line); free(s.p); return NULL;
}

int resfd_global = -1;   /* used by the shim to report a collective mismatch before exiting */
char cur_script_id[64];

int main(int argc, char **argv) {
    MPI_Init(&argc, &argv);
    PMPI_Comm_rank(MPI_COMM_WORLD, &wrank); PMPI_Comm_size(MPI_COMM_WORLD, &wsize);
    for (int i = 0; i < NFILES; i++) ncids[i] = ncid_last[i] = -1;
    for (int i = 0; i < NSLOT; i++) reqs[i] = NC_REQ_NULL;
    make_comms();
    shim_init();
    strcpy(curdir, "/tmp");
    if (argc >= 4 && !strcmp(argv[1], "--pool")) {
        FILE *cmd = NULL; int resfd = -1;
        if (wrank == 0) { cmd = fopen(argv[2], "r"); resfd = open(argv[3], O_WRONLY); resfd_global = resfd; if (!cmd || resfd < 0) { fprintf(stderr, "pncx: cannot open fifos\n"); PMPI_Abort(MPI_COMM_WORLD, 3); } }
        for (;;) {
            char *text = NULL; int len = -1;
            if (wrank == 0) { text = read_script_fifo(cmd); len = text ? (int)strlen(text) : -1; if (text && !strcmp(text, "QUIT\n")) len = -1; }
            PMPI_Bcast(&len, 1, MPI_INT, 0, MPI_COMM_WORLD);
            if (len < 0) break;
            if (wrank != 0) text = malloc(len + 1);
            PMPI_Bcast(text, len + 1, MPI_CHAR, 0, MPI_COMM_WORLD);
            int k = 1; cur_script_id[0] = 0;
            char *mine = run_script(text, &k, cur_script_id);
            if (mine) {
                char *res = gather_results(mine, cur_script_id);
                if (res) { size_t l = strlen(res), w = 0; while (w < l) { ssize_t x = write(resfd, res + w, l - w); if (x <= 0) break; w += x; } free(res); }
                free(mine);
            }
            free(text);
        }
    } else if (argc >= 3 && !strcmp(argv[1], "--file")) {
        char *text = NULL; int len = 0;
        if (wrank == 0) { FILE *f = fopen(argv[2], "r"); if (!f) PMPI_Abort(MPI_COMM_WORLD, 3); fseek(f, 0, SEEK_END); len = (int)ftell(f); fseek(f, 0, SEEK_SET); text = malloc(len + 1); if (fread(text, 1, len, f) != (size_t)len) len = 0; text[len] = 0; fclose(f); }
        PMPI_Bcast(&len, 1, MPI_INT, 0, MPI_COMM_WORLD);
        if (wrank != 0) text = malloc(len + 1);
        PMPI_Bcast(text, len + 1, MPI_CHAR, 0, MPI_COMM_WORLD);
        if (argc >= 4 && wrank == 0) { resfd_global = open(argv[3], O_WRONLY | O_CREAT | O_TRUNC, 0644); }
        int k = 1; cur_script_id[0] = 0;
        char *mine = run_script(text, &k, cur_script_id);
        if (mine) {
            char *res = gather_results(mine, cur_script_id);
            if (res) { if (resfd_global >= 0) { if (write(resfd_global, res, strlen(res)) < 0) perror("write"); } else fputs(res, stdout); free(res); }
            free(mine);
        }
        free(text);
    } else if (wrank == 0) fprintf(stderr, "usage: pncx --pool cmd res | --file script [result]\n");
    for (int k = 1; k <= wsize && k <= 64; k++) if (comm_k[k] != MPI_COMM_NULL) PMPI_Comm_free(&comm_k[k]);
    MPI_Finalize();
    return 0;
}
